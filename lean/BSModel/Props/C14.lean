import BSModel.Proofs.PrettyStream
import BSModel.Proofs.PrettyTokens
import BSModel.Proofs.PrettyReparseWritable
import BSModel.Props.C05
/-! # C14 — prettify() changes only whitespace and shows the nesting

Property theorems only. `decodeImpl`, `step`, `indentString`, `events`, `receiverStream`, `prettifyImpl`, `indentOf`,
`shouldPrettyPrint`, `levelOf` mirror `bs4/element.py` (`Tag.decode`, `_event_stream`, `_indent_string`,
`_should_pretty_print`, `prettify`, `decode_contents`) and `bs4/formatter.py` (`Formatter.__init__`) statement by statement
(`Model/Pretty.lean`); `prettyNode`/`prettyL`/`plain`/`decodeSpec` are the recursive specification; `items`/`layout`/
`OutermostPre`/`pieceSeq`/`Decorated`/`dropWs` (`Proofs/PrettyLaws.lean`) are the vocabulary of the statement. Tag and
string pieces are opaque inputs. The tables (`whitespace`, `htmlPreserveWs`, `basePreserveWs`, `builtinIndents`,
`defaultIndentInt`) are generated from the live objects on every run.

Clause of the property → theorems (all for every tree, unit, level, encoding; none by finite enumeration):
* "re-parses to the same tree as the plain output once whitespace inside text is disregarded" → `nonws_equal(_contents)`,
  `recv_nonws_equal` (same non-whitespace characters, same order), `pretty_same_events` (same pieces, tags intact),
  `pretty_same_tokens` + `specials_ok_table` (same token sequence modulo whitespace in character data; tokenizer not
  modelled — see section 10; the tree-level comparison is the harness' re-parse oracle);
* "everything inside whitespace-preserving elements (pre, textarea) is reproduced character for character" →
  `preserve_verbatim`, `preserve_verbatim_line`, `preserve_verbatim_contents`, `html_preserve_tags`, `xml_preserves_nothing`,
  `should_pretty_print_iff`;
* "outside those elements every tag and every non-blank string sits on its own line, indented by unit × depth" →
  `line_structure(_contents)`, `line_structure_general` (no visibility hypothesis), `recv_line_structure`, `blank_iff`,
  `special_strings_have_lines`, `tag_piece_shape`, `void_receiver`;
* "the output ends with a newline" → `ends_with_newline(_contents)`, `recv_line_structure` (declaration line included);
* quantifier "every element as the starting point" → `decode_refines`, `recv_decode_refines` (visible / hidden receiver,
  `decode_contents`, `BeautifulSoup` object, empty-element tag), `event_stream_refines`; "every built-in formatter and indent
  setting" → `builtin_units` (whole table), `indent_none/int/str/other`, `indent_whitespace`; "HTML- and XML-flavoured trees" →
  `html_preserve_tags`, `xml_preserves_nothing`, `xml_declaration(_python_specific)`; str and bytes flavour of `prettify` →
  `prettify_flavours`, `prettify_bytes_of_str`; "trees from edit histories" → the statements are about arbitrary trees
  (identities distinct), whatever history produced them.

Hypotheses that appear below and why they are harmless:
* `distinct t` — no element has the identity of one of its own descendants (`decode` compares with `is`); true of every
  real tree (C01's well-formedness).
* `preVisible t` — a whitespace-preserving element met outside literal mode is not `hidden` (a hidden `<pre>` has no
  opening/closing piece, so it has no line of its own; `hidden` is set by hand only, never by a parser on such a tag).
* `∀ c ∈ unit, isSpace c` — the indent unit is whitespace (`Formatter(indent="--")` is outside the property). -/
namespace BS.Props.C14
open BS.Pretty

/-- `<div><p>a <b>x</b></p><pre> x <pre> y </pre>\n</pre><br/>  </div>` with a pre inside a pre, an empty-element tag and a
    blank string; identities = pre-order numbers -/
def demo : Node :=
  .elem 0 (ofS "<div>") (ofS "</div>") false
    [ .elem 1 (ofS "<p>") (ofS "</p>") false [.str (ofS "a "), .elem 2 (ofS "<b>") (ofS "</b>") false [.str (ofS "x")]],
      .elem 3 (ofS "<pre>") (ofS "</pre>") true
        [.str (ofS " x "), .elem 4 (ofS "<pre>") (ofS "</pre>") true [.str (ofS " y ")], .str (ofS "\n")],
      .void (ofS "<br/>"),
      .str (ofS "  ") ]

/-- the `<pre>` of `demo` -/
def demoPre : Node :=
  .elem 3 (ofS "<pre>") (ofS "</pre>") true
    [.str (ofS " x "), .elem 4 (ofS "<pre>") (ofS "</pre>") true [.str (ofS " y ")], .str (ofS "\n")]

/-- a hidden root (the `BeautifulSoup` object) over two top-level nodes -/
def demoSoup : Node := .elem 0 [] [] false [.str (ofS " t "), .elem 1 (ofS "<a>") (ofS "</a>") false []]

/-! ## 1. the loop over the event stream is the recursive specification -/

/-- Refinement: `decode(indent_level=l)` on the event stream of a tree — level bookkeeping, string-literal mode entered at
    the first whitespace-preserving start tag and left at *its* end tag, `strip()` of string pieces and the
    `_indent_string` rule outside that mode, empty pieces dropped — is the recursive pretty rendering: level and
    literal tag are restored after every balanced block of events. -/
theorem pretty_refines (u : PStr) (l : Int) (t : Node) (h : distinct t = true) :
    decodeImpl u (some l) (events t) = prettyNode u l false t := by
  have := run_out u t l [] h
  simpa [decodeImpl_eq_run] using this

example : decodeImpl (ofS " ") (some 0) (events demo) =
    ofS "<div>\n <p>\n  a\n  <b>\n   x\n  </b>\n </p>\n <pre> x <pre> y </pre>\n</pre>\n <br/>\n</div>\n" := by decide
example : distinct demo = true := by decide
/-- without distinct identities the loop really differs: an inner tag with the identity of the literal tag ends the mode early -/
example : decodeImpl (ofS " ") (some 0)
      (events (.elem 3 (ofS "<pre>") (ofS "</pre>") true [.elem 3 (ofS "<b>") (ofS "</b>") false [], .str (ofS " z ")]))
    ≠ prettyNode (ofS " ") 0 false
      (.elem 3 (ofS "<pre>") (ofS "</pre>") true [.elem 3 (ofS "<b>") (ofS "</b>") false [], .str (ofS " z ")]) := by decide

/-- State restoration (the pillar of the refinement): after the events of any subtree the loop's `indent_level` and
    `string_literal_tag` are what they were before it — whatever is nested inside (whitespace-preserving elements within
    each other, tags inside them) — so what follows a subtree is laid out independently of it. -/
theorem state_restored (u : PStr) (l : Int) (t : Node) (rest : List Ev) (h : distinct t = true) :
    finalState u ⟨some l, none⟩ (events t ++ rest) = finalState u ⟨some l, none⟩ rest ∧
    finalState u ⟨some l, none⟩ (events t) = ⟨some l, none⟩ := by
  refine ⟨final_out u t l rest h, ?_⟩
  have := final_out u t l [] h
  simpa [finalState] using this

example : (finalState (ofS " ") ⟨some 0, none⟩ ((events demo).take 9)).lit = some 3 ∧
    (finalState (ofS " ") ⟨some 0, none⟩ ((events demo).take 9)).lvl = some 2 := by decide

/-- The same for `decode_contents(indent_level=l)` and for a hidden receiver (the `BeautifulSoup` object): the children's
    stream gives the children's rendering, all at level `l`. -/
theorem pretty_refines_contents (u : PStr) (l : Int) (ks : List Node) (h : distinctL ks = true) :
    decodeImpl u (some l) (eventsL ks) = prettyL u l false ks := by
  have := runL_out u ks l [] h
  simpa [decodeImpl_eq_run] using this

/-- Plain mode (`indent_level=None`): the pieces, concatenated, whatever the identities. -/
theorem plain_refines (u : PStr) (t : Node) : decodeImpl u none (events t) = plain t := by
  rw [decodeImpl_eq_run, run_plain u _ _ rfl, pieces_events]

/-- plain mode on the children's stream (`decode_contents()`, hidden receiver) -/
theorem plain_refines_contents (u : PStr) (ks : List Node) : decodeImpl u none (eventsL ks) = plainL ks := by
  rw [decodeImpl_eq_run, run_plain u _ _ rfl, pieces_eventsL]

example : decodeImpl (ofS " ") none (events demo) =
    ofS "<div><p>a <b>x</b></p><pre> x <pre> y </pre>\n</pre><br/>  </div>" := by decide

/-- Every receiver, every way of calling: `decode(indent_level)`, `decode_contents(indent_level)`, visible or hidden
    receiver, `indent_level` None / True / an int. -/
theorem decode_refines (u : PStr) (lvl : LevelArg) (hidden contentsOnly : Bool) (t : Node) (h : distinct t = true) :
    decodeImpl u (levelOf lvl) (receiverStream hidden contentsOnly t) = decodeSpec u (levelOf lvl) hidden contentsOnly t := by
  unfold receiverStream decodeSpec
  cases hl : levelOf lvl with
  | none => by_cases hc : (hidden || contentsOnly) = true <;> simp [hc, plain_refines, plain_refines_contents]
  | some l =>
    by_cases hc : (hidden || contentsOnly) = true
    · simp [hc, pretty_refines_contents u l _ (distinctL_kids h)]
    · simp [hc, pretty_refines u l t h]

/-- `prettify()` is the pretty rendering at level 0 (of the children, for a hidden receiver). -/
theorem prettify_refines (u : PStr) (hidden : Bool) (t : Node) (h : distinct t = true) :
    prettifyImpl u hidden t = if hidden then prettyL u 0 false t.kids else prettyNode u 0 false t := by
  have := decode_refines u (.int 0) hidden false t h
  simp only [levelOf, decodeSpec, Bool.or_false] at this
  simpa [prettifyImpl] using this

example : prettifyImpl (ofS " ") true demoSoup = ofS "t\n<a>\n</a>\n" := by decide
example : distinctL demoSoup.kids = true ∧ distinct demoSoup = true := by decide
example : levelOf .true = some 0 ∧ levelOf .none = none ∧ levelOf (.int (-1)) = some (-1) := by decide

/-! ## 2. every tag and every non-blank string on its own line, indented by unit × depth -/

/-- Line structure. The pretty output is exactly the concatenation of the lines `unit^(l + depth) ++ content ++ "\n"` where
    the contents are, in document order: every (non-empty) tag piece outside whitespace-preserving elements, every string
    piece that is not blank with its surrounding whitespace stripped, and every outermost whitespace-preserving element as
    one verbatim block; `depth` is the nesting depth below the receiver. Blank strings and hidden tags have no line. -/
theorem line_structure (u : PStr) (l : Int) (t : Node) (hd : distinct t = true) (hv : preVisible t = true) :
    decodeImpl u (some l) (events t) = layout u l (items 0 t) := by
  rw [pretty_refines u l t hd]
  simpa using pretty_layout u t l 0 hv

/-- the same for the children's stream (`decode_contents`, hidden receiver) -/
theorem line_structure_contents (u : PStr) (l : Int) (ks : List Node) (hd : distinctL ks = true)
    (hv : preVisibleL ks = true) : decodeImpl u (some l) (eventsL ks) = layout u l (itemsL 0 ks) := by
  rw [pretty_refines_contents u l ks hd]
  simpa using prettyL_layout u ks l 0 hv

example : items 0 demo =
    [(0, ofS "<div>"), (1, ofS "<p>"), (2, ofS "a"), (2, ofS "<b>"), (3, ofS "x"), (2, ofS "</b>"), (1, ofS "</p>"),
     (1, ofS "<pre> x <pre> y </pre>\n</pre>"), (1, ofS "<br/>"), (0, ofS "</div>")] := by decide
example : preVisible demo = true := by decide
example : layout (ofS "\t") 1 [(0, ofS "<a>"), (1, ofS "x")] = ofS "\t<a>\n\t\tx\n" := by decide

/-- "blank" means what it should: `strip` leaves nothing iff every code point is whitespace (`str.isspace`, generated table) -/
theorem blank_iff (s : PStr) : strip s = [] ↔ ∀ c ∈ s, isSpace c = true := strip_eq_nil_iff s

example : strip (ofS " \n\t") = [] ∧ strip (ofS " a b \n") = ofS "a b" := by decide

/-- The output ends with a newline (unless it is empty: nothing but blank strings and hidden tags). -/
theorem ends_with_newline (u : PStr) (l : Int) (t : Node) (hd : distinct t = true) (hv : preVisible t = true)
    (hne : decodeImpl u (some l) (events t) ≠ []) : (decodeImpl u (some l) (events t)).getLast? = some 10 := by
  have h := line_structure u l t hd hv
  exact EndsNl.getLast (h ▸ layout_endsNl u l _) hne

/-- the same for the children's stream (`decode_contents`, `BeautifulSoup.prettify()`) -/
theorem ends_with_newline_contents (u : PStr) (l : Int) (ks : List Node) (hd : distinctL ks = true)
    (hv : preVisibleL ks = true) (hne : decodeImpl u (some l) (eventsL ks) ≠ []) :
    (decodeImpl u (some l) (eventsL ks)).getLast? = some 10 := by
  have h := line_structure_contents u l ks hd hv
  exact EndsNl.getLast (h ▸ layout_endsNl u l _) hne

example : decodeImpl (ofS " ") (some 0) (eventsL [.str (ofS "  ")]) = [] := by decide
example : decodeImpl (ofS " ") (some 0) (events demo) ≠ [] := by decide
/-- the hypothesis `preVisible` is needed: a hidden `<pre>` leaves its contents without a final newline -/
example : decodeImpl (ofS " ") (some 0) (events (.elem 0 [] [] true [.str (ofS "x")])) = ofS "x" := by decide

/-! ## 3. inside whitespace-preserving elements: character for character -/

/-- For every outermost whitespace-preserving element `e` of the receiver, the plain rendering of `e` occurs contiguously
    in the pretty output. -/
theorem preserve_verbatim (u : PStr) (l : Int) {d : Nat} {e t : Node} (hd : distinct t = true) (h : OutermostPre d e t) :
    decodeImpl u none (events e) <:+: decodeImpl u (some l) (events t) := by
  rw [plain_refines, pretty_refines u l t hd]
  exact outermost_infix u h l

/-- … on a line of its own: indented like any other tag at its depth, followed by a newline. -/
theorem preserve_verbatim_line (u : PStr) (l : Int) {d : Nat} {e t : Node} (hd : distinct t = true)
    (h : OutermostPre d e t) (hv : preVisible e = true) :
    rep u (l + d) ++ decodeImpl u none (events e) ++ [10] <:+: decodeImpl u (some l) (events t) := by
  rw [plain_refines, pretty_refines u l t hd]
  exact outermost_line u h hv l

example : OutermostPre 1 demoPre demo :=
  .inside 0 _ _ _ demoPre demoPre 0 (by simp [demoPre]) (.self 3 _ _ _)
example : decodeImpl (ofS " ") none (events demoPre) = ofS "<pre> x <pre> y </pre>\n</pre>" := by decide

/-! ## 4. only whitespace changes -/

/-- With a whitespace-only indent unit, the pretty output and the plain output have the same non-whitespace code points
    in the same order: nothing but whitespace is added, lost or moved. -/
theorem nonws_equal (u : PStr) (l : Int) (t : Node) (hd : distinct t = true) (hu : ∀ c ∈ u, isSpace c = true) :
    dropWs (decodeImpl u (some l) (events t)) = dropWs (decodeImpl u none (events t)) := by
  rw [pretty_refines u l t hd, plain_refines]
  exact dropWs_pretty u hu t l false

/-- the same for the children's stream (`decode_contents`, `BeautifulSoup.prettify()`) -/
theorem nonws_equal_contents (u : PStr) (l : Int) (ks : List Node) (hd : distinctL ks = true)
    (hu : ∀ c ∈ u, isSpace c = true) :
    dropWs (decodeImpl u (some l) (eventsL ks)) = dropWs (decodeImpl u none (eventsL ks)) := by
  rw [pretty_refines_contents u l ks hd, plain_refines_contents]
  exact dropWs_prettyL u hu ks l false

example : dropWs (ofS " <a>\n  x y\n") = ofS "<a>xy" := by decide
example : (∀ c ∈ ofS " \t", isSpace c = true) ∧ (∀ c ∈ ([] : PStr), isSpace c = true) := by decide
/-- the hypothesis on the unit is needed -/
example : dropWs (decodeImpl (ofS "--") (some 1) (events (.void (ofS "<br/>")))) ≠
    dropWs (decodeImpl (ofS "--") none (events (.void (ofS "<br/>")))) := by decide

/-- Same events: the pretty output is the concatenation of the *same piece sequence* as the plain output, each piece kept
    intact — a string piece possibly with its surrounding whitespace stripped — with copies of the unit before it and
    possibly a newline after it. In particular no tag piece is altered and nothing is inserted inside a piece. -/
theorem pretty_same_events (u : PStr) (l : Int) (t : Node) (hd : distinct t = true) :
    decodeImpl u none (events t) = ((pieceSeq t).map (·.2)).flatten ∧
    ∃ qs, Pointwise (Decorated u) (pieceSeq t) qs ∧ decodeImpl u (some l) (events t) = qs.flatten := by
  rw [plain_refines, pretty_refines u l t hd]
  exact ⟨plain_pieceSeq t, same_pieces u t l false⟩

example : pieceSeq demoSoup = [(false, []), (true, ofS " t "), (false, ofS "<a>"), (false, ofS "</a>"), (false, [])] := by
  decide

/-! ## 5. the indent unit -/

/-- `Formatter(indent=None)`: newlines only. -/
theorem indent_none : indentOf .none = [] := by decide

/-- `Formatter(indent=n)`: `n` spaces; negative counts as 0. -/
theorem indent_int (n : Int) : indentOf (.int n) = List.replicate n.toNat 32 := by
  by_cases h : n < 0
  · have : n.toNat = 0 := by omega
    simp [indentOf, h, this]
  · simp [indentOf, h]

/-- `Formatter(indent=s)`: the string itself. -/
theorem indent_str (s : PStr) : indentOf (.str s) = s := rfl

/-- anything else: one space -/
theorem indent_other : indentOf .other = [32] := rfl

/-- Unless a string is passed, the unit consists of spaces — so the hypothesis of `nonws_equal` holds. For a string argument
    it holds iff the string is whitespace (by `indent_str`). -/
theorem indent_whitespace (a : IndentArg) (h : ∀ s, a ≠ .str s) : ∀ c ∈ indentOf a, isSpace c = true := by
  have h32 : isSpace 32 = true := by decide
  intro c hc
  cases a with
  | none => simp [indent_none] at hc
  | int n => rw [indent_int] at hc; rw [(List.mem_replicate.mp hc).2]; exact h32
  | str s => exact absurd rfl (h s)
  | other => simp [indent_other] at hc; rw [hc]; exact h32

example : indentOf (.int 3) = ofS "   " ∧ indentOf (.int (-1)) = [] ∧ indentOf (.str (ofS "\t")) = ofS "\t" := by decide
example : ∀ s, IndentArg.int 3 ≠ .str s := by intro s h; cases h

/-- Table fact (generated from `HTMLFormatter.REGISTRY`/`XMLFormatter.REGISTRY` and the signature of `Formatter.__init__`):
    every built-in formatter, and the default of `indent=`, indents by exactly one space. -/
theorem builtin_units :
    (∀ e ∈ BS.Gen.Pretty.builtinIndents, e.2.2 = [32]) ∧ BS.Gen.Pretty.defaultIndentIsInt = true ∧
    indentOf (.int BS.Gen.Pretty.defaultIndentInt) = [32] := by decide +kernel

example : BS.Gen.Pretty.builtinIndents.length ≥ 8 := by decide

/-! ## 6. which elements preserve whitespace -/

/-- `_should_pretty_print()` is false exactly for a name in a non-empty `preserve_whitespace_tags`. -/
theorem should_pretty_print_iff (pwt : Option (List PStr)) (name : PStr) :
    shouldPrettyPrint pwt name = false ↔ ∃ l, pwt = some l ∧ name ∈ l := by
  cases pwt with
  | none => simp [shouldPrettyPrint]
  | some l =>
    cases l with
    | nil => simp [shouldPrettyPrint]
    | cons a l =>
      simp only [shouldPrettyPrint]
      by_cases h : name = a <;> simp [h]

/-- Table fact (generated from `HTMLTreeBuilder.DEFAULT_PRESERVE_WHITESPACE_TAGS`): in an HTML-flavoured tree exactly `pre`
    and `textarea` are whitespace-preserving. -/
theorem html_preserve_tags (name : PStr) :
    shouldPrettyPrint (some BS.Gen.Pretty.htmlPreserveWs) name = false ↔ name = ofS "pre" ∨ name = ofS "textarea" := by
  have ht : BS.Gen.Pretty.htmlPreserveWs = [ofS "pre", ofS "textarea"] := by decide +kernel
  rw [should_pretty_print_iff, ht]
  simp

/-- Table fact (`TreeBuilder.DEFAULT_PRESERVE_WHITESPACE_TAGS`) and the builder-less default (`None`): in an XML-flavoured
    tree nothing is whitespace-preserving unless configured. -/
theorem xml_preserves_nothing (name : PStr) :
    shouldPrettyPrint (some BS.Gen.Pretty.basePreserveWs) name = true ∧ shouldPrettyPrint none name = true := by
  have ht : BS.Gen.Pretty.basePreserveWs = [] := by decide +kernel
  simp [ht, shouldPrettyPrint]

example : mkTag 7 (ofS "<pre>") (ofS "</pre>") (some BS.Gen.Pretty.htmlPreserveWs) (ofS "pre") false [] =
    .elem 7 (ofS "<pre>") (ofS "</pre>") true [] := by rfl
example : mkTag 7 (ofS "<br/>") (ofS "</br>") (some BS.Gen.Pretty.htmlPreserveWs) (ofS "br") true [] = .void (ofS "<br/>") := by
  rfl

/-- Table sanity (generated from `str.isspace` of the running CPython): the characters pretty-printing inserts — space,
    newline — and tab are whitespace; the zero-width space and the markup characters `<`, `>`, `&` are not. -/
theorem whitespace_table : isSpace 32 = true ∧ isSpace 10 = true ∧ isSpace 9 = true ∧ isSpace 0x200b = false ∧
    isSpace 60 = false ∧ isSpace 62 = false ∧ isSpace 38 = false := by decide +kernel

/-! ## 6b. `_event_stream` itself -/

/-- `_event_stream`'s walk — a stack of open tags, popped (END events) while the next element's parent *is not* the tag on top,
    START/EMPTY/STRING for the element, everything left closed at the end — over the pre-order of a tree with parent
    pointers yields exactly the balanced event list the other theorems are about; for `self_and_descendants` of a visible
    receiver (`p` = its parent, never looked at) and for `descendants` / a hidden receiver (`p` = the receiver). Identities are
    pairwise distinct here (`Nodup`): the walk compares parents with `is`. -/
theorem event_stream_refines (p : Nat) (t : Node) (ks : List Node) :
    ((ids t).Nodup → streamImpl [] (flat p t) = events t) ∧
    ((idsL ks).Nodup → p ∉ idsL ks → streamImpl [] (flatL p ks) = eventsL ks) := by
  constructor
  · intro hn
    have := stream_node t p [] [] (Or.inl rfl) (by simp) hn
    simpa [streamImpl] using this
  · intro hn hp
    have := stream_forest ks p [] [] (Or.inl rfl) (by simp) hn hp
    simpa [streamImpl] using this

example : (ids demo).Nodup := by decide
example : streamImpl [] (flat 99 demo) = events demo := by decide
/-- two tags with one identity: the walk leaves the inner one open when the outer one's next child arrives -/
example : streamImpl [] (flat 9 (.elem 1 [60] [62] false [.elem 1 [60] [62] false [], .str [97]])) ≠
    events (.elem 1 [60] [62] false [.elem 1 [60] [62] false [], .str [97]]) := by decide

/-- End to end: `decode(indent_level=l)` run on what `_event_stream` really yields is the recursive pretty rendering. -/
theorem decode_on_walk (u : PStr) (l : Int) (p : Nat) (t : Node) (hn : (ids t).Nodup) :
    decodeImpl u (some l) (streamImpl [] (flat p t)) = prettyNode u l false t := by
  rw [(event_stream_refines p t []).1 hn, pretty_refines u l t (nodup_distinct t hn)]

/-! ## 7. every tree, hidden whitespace-preserving elements included; verbatim blocks seen from a hidden receiver -/

/-- Line structure without the visibility hypothesis: for *every* tree the pretty output is the concatenation of its blocks —
    the lines of `line_structure`, except that a whitespace-preserving element without opening (closing) piece — a hidden
    one — is a block that lacks the indentation (the newline). -/
theorem line_structure_general (u : PStr) (l : Int) (t : Node) (hd : distinct t = true) :
    decodeImpl u (some l) (events t) = layoutB u l (blocks 0 t) ∧
    (preVisible t = true → blocks 0 t = (items 0 t).map lineBlock) := by
  refine ⟨?_, blocks_items t 0⟩
  rw [pretty_refines u l t hd]
  simpa using pretty_blocks u t l 0

example : blocks 0 (.elem 0 (ofS "<p>") (ofS "</p>") false [.elem 1 [] [] true [.str (ofS " x ")], .str (ofS "y")]) =
    [⟨0, true, ofS "<p>", true⟩, ⟨1, false, ofS " x ", false⟩, ⟨1, true, ofS "y", true⟩, ⟨0, true, ofS "</p>", true⟩] := by
  decide

/-- `preserve_verbatim` for `decode_contents` and hidden receivers (`BeautifulSoup.prettify()`): an outermost
    whitespace-preserving element below one of the children. -/
theorem preserve_verbatim_contents (u : PStr) (l : Int) {d : Nat} {e k : Node} {ks : List Node} (hd : distinctL ks = true)
    (hk : k ∈ ks) (h : OutermostPre d e k) :
    decodeImpl u none (events e) <:+: decodeImpl u (some l) (eventsL ks) ∧
    (preVisible e = true → rep u (l + d) ++ decodeImpl u none (events e) ++ [10] <:+: decodeImpl u (some l) (eventsL ks)) := by
  rw [plain_refines, pretty_refines_contents u l ks hd]
  exact ⟨outermost_infix_L u hk h l, fun hv => outermost_line_L u hk h hv l⟩

example : OutermostPre 0 demoPre demoPre ∧ demoPre ∈ [Node.str (ofS " "), demoPre] := ⟨.self 3 _ _ _, by simp⟩

/-! ## 8. the pieces: tags and special strings -/

/-- `_format_tag`: a hidden tag has no pieces; any other tag's pieces start with `<` and end with `>` — so they are never
    empty or blank and `strip()` would not change them (which is why `decode` strips string pieces only). With this,
    `preVisible` says exactly "no hidden whitespace-preserving element" (`preVisible_resolve`). -/
theorem tag_piece_shape (c : RCfg) (i : TagInfo) (isEmpty opening : Bool) :
    (i.hidden = true → formatTag c i isEmpty opening = []) ∧
    (i.hidden = false → ∃ mid, formatTag c i isEmpty opening = 60 :: (mid ++ [62])) ∧
    strip (formatTag c i isEmpty opening) = formatTag c i isEmpty opening :=
  ⟨formatTag_hidden c i isEmpty opening, formatTag_visible c i isEmpty opening, strip_formatTag c i isEmpty opening⟩

/-- a `<meta charset>` whose attribute string depends on the eventual encoding, and an empty-element tag -/
def metaInfo : TagInfo :=
  { id := 1, soupXml := none, hidden := false, nsPrefix := [], name := ofS "meta", attrDefault := ofS " charset=\"utf-8\"",
    attrBy := [(none, ofS " charset=\"iso-8859-1\""), (some (ofS "latin-1"), ofS " charset=\"latin-1\"")],
    preserveWs := some BS.Gen.Pretty.htmlPreserveWs, canBeEmpty := true }

example : formatTag ⟨some (ofS "utf-8"), ofS "/"⟩ metaInfo true true = ofS "<meta charset=\"utf-8\"/>" ∧
    formatTag ⟨none, ofS "/"⟩ metaInfo true true = ofS "<meta charset=\"iso-8859-1\"/>" ∧
    formatTag ⟨none, []⟩ { metaInfo with nsPrefix := ofS "ns" } false false = ofS "</ns:meta>" ∧
    formatTag ⟨none, []⟩ { metaInfo with hidden := true } false false = [] := by decide

/-- Table fact over the WHOLE generated table of `NavigableString` subclasses (PREFIX, SUFFIX), lifted by
    `strip_outputReady`: a string of a class with a PREFIX (comment, CDATA, processing instruction, declaration, doctype)
    strips to PREFIX ++ body ++ SUFFIX-without-trailing-whitespace — never blank, whatever its body — so it always gets its
    line, content intact; the other classes have neither PREFIX nor SUFFIX (their piece is the substituted text). -/
theorem special_strings_have_lines :
    ∀ e ∈ BS.Gen.Pretty.stringAffixes, (e.2.1 = [] → e.2.2.1 = []) ∧
      (e.2.1 ≠ [] → ∀ body, strip (outputReady e.2.1 e.2.2.1 body) = e.2.1 ++ body ++ rstrip e.2.2.1 ∧
        strip (outputReady e.2.1 e.2.2.1 body) ≠ []) := by
  have hall : BS.Gen.Pretty.stringAffixes.all (fun e => affixOk e && (!e.2.1.isEmpty || e.2.2.1.isEmpty)) = true := by
    decide +kernel
  intro e he
  have h := List.all_eq_true.mp hall e he
  simp only [Bool.and_eq_true, Bool.or_eq_true, Bool.not_eq_true', List.isEmpty_iff] at h
  refine ⟨fun hp => ?_, fun hp body => strip_outputReady e h.1 hp body⟩
  rcases h.2 with h2 | h2
  · simp [hp] at h2
  · exact h2

example : (ofS "Doctype", ofS "<!DOCTYPE ", ofS ">\n", true) ∈ BS.Gen.Pretty.stringAffixes ∧
    (ofS "Comment", ofS "<!--", ofS "-->", true) ∈ BS.Gen.Pretty.stringAffixes := by decide
example : strip (outputReady (ofS "<!DOCTYPE ") (ofS ">\n") (ofS "html")) = ofS "<!DOCTYPE html>" ∧
    strip (outputReady (ofS "<!--") (ofS "-->") (ofS "  ")) = ofS "<!--  -->" := by decide

/-! ## 9. receivers, encodings, the bytes flavour, the XML declaration -/

/-- `<head><meta charset/><br/></head>`-like raw tree: identities 0..2 -/
def demoRaw : RNode :=
  .tag { id := 0, soupXml := none, hidden := false, nsPrefix := [], name := ofS "head", attrDefault := [], attrBy := [],
         preserveWs := some BS.Gen.Pretty.htmlPreserveWs, canBeEmpty := false }
    [.tag metaInfo [], .str (ofS "<!--") (ofS "-->") (ofS " c "), .str [] [] (ofS " t ")]

/-- an XML-flavoured `BeautifulSoup` object (hidden) over one empty-element tag -/
def demoXmlSoup : RNode :=
  .tag { id := 0, soupXml := some true, hidden := true, nsPrefix := [], name := ofS "[document]", attrDefault := [], attrBy := [],
         preserveWs := some [], canBeEmpty := false }
    [.tag { metaInfo with name := ofS "a", attrDefault := [], attrBy := [], preserveWs := some [] } []]

/-- Refinement for every receiver and entry point: `decode`/`decode_contents` of a `Tag`, and of a `BeautifulSoup` object
    (XML declaration first, deprecated bool level), at every `eventual_encoding`, equal the recursive specification on the
    pieces `_format_tag`/`output_ready` produce under that encoding. -/
theorem recv_decode_refines (u vcp : PStr) (lvl : LevelArg) (enc : Option PStr) (co : Bool) (r : RNode)
    (h : rdistinct r = true) : recvDecode u vcp lvl enc co r = recvSpec u vcp lvl enc co r := by
  have hd := distinct_resolve ⟨enc, vcp⟩ r h
  unfold recvDecode recvSpec soupDecode tagDecode
  cases r.soupXml with
  | none => simp [decode_refines u lvl r.hidden co _ hd]
  | some x => simp [decode_refines u (soupLevel lvl) r.hidden co _ hd]

example : rdistinct demoRaw = true ∧ rdistinct demoXmlSoup = true := by decide
example : recvDecode (ofS " ") (ofS "/") (.int 0) (some (ofS "utf-8")) false demoRaw =
    ofS "<head>\n <meta charset=\"utf-8\"/>\n <!-- c -->\n t\n</head>\n" := by decide
example : recvDecode (ofS " ") (ofS "/") .true (some (ofS "utf-8")) false demoXmlSoup =
    ofS "<?xml version=\"1.0\" encoding=\"utf-8\"?>\n<a/>\n" ∧
    recvDecode (ofS " ") (ofS "/") .false (some (ofS "idna")) false demoXmlSoup = ofS "<?xml version=\"1.0\"?>\n<a/>" := by
  decide

/-- The XML declaration: an `is_xml` soup's output is the declaration line — naming the eventual encoding unless it is None or
    one of `PYTHON_SPECIFIC_ENCODINGS` (generated table, consulted by membership: holds for the whole table) — followed by what
    `Tag.decode` gives; any other receiver has no such line. -/
theorem xml_declaration (u vcp : PStr) (lvl : LevelArg) (enc : Option PStr) (co : Bool) (r : RNode) :
    (r.soupXml = some true →
      recvDecode u vcp lvl enc co r =
        ofS "<?xml version=\"1.0\"" ++
          (match enc with
           | some e => if BS.Gen.Pretty.pythonSpecificEncodings.contains e then [] else ofS " encoding=\"" ++ e ++ ofS "\""
           | none => []) ++ ofS "?>\n" ++ tagDecode u vcp (soupLevel lvl) enc co r) ∧
    (r.soupXml = some false → recvDecode u vcp lvl enc co r = tagDecode u vcp (soupLevel lvl) enc co r) ∧
    (r.soupXml = none → recvDecode u vcp lvl enc co r = tagDecode u vcp lvl enc co r) := by
  refine ⟨fun h => ?_, fun h => ?_, fun h => ?_⟩
  · simp only [recvDecode, h, soupDecode, xmlDecl, if_true]
    cases enc with
    | none => simp
    | some e => by_cases hc : e ∈ BS.Gen.Pretty.pythonSpecificEncodings <;> simp [hc]
  · simp [recvDecode, h, soupDecode, xmlDecl]
  · simp [recvDecode, h]

/-- every python-specific encoding of the generated table is left out of the declaration -/
theorem xml_declaration_python_specific :
    ∀ e ∈ BS.Gen.Pretty.pythonSpecificEncodings, xmlDecl true (some e) = ofS "<?xml version=\"1.0\"?>\n" := by
  intro e he
  simp only [xmlDecl, if_true, List.contains_eq_mem, he, decide_true]
  decide

example : ofS "idna" ∈ BS.Gen.Pretty.pythonSpecificEncodings ∧ ofS "utf-8" ∉ BS.Gen.Pretty.pythonSpecificEncodings := by decide
example : demoXmlSoup.soupXml = some true ∧ demoRaw.soupXml = none := by decide

/-- Only whitespace changes, for every receiver, entry point, level argument and eventual encoding: the output has the same
    non-whitespace code points as the plain output *for the same eventual encoding* (declaration line included). -/
theorem recv_nonws_equal (u vcp : PStr) (lvl : LevelArg) (enc : Option PStr) (co : Bool) (r : RNode) (hd : rdistinct r = true)
    (hu : ∀ c ∈ u, isSpace c = true) :
    dropWs (recvDecode u vcp lvl enc co r) = dropWs (recvDecode u vcp .none enc co r) := by
  rw [recv_decode_refines u vcp lvl enc co r hd, recv_decode_refines u vcp .none enc co r hd]
  unfold recvSpec
  cases r.soupXml with
  | none => simpa [levelOf] using dropWs_decodeSpec u hu (levelOf lvl) r.hidden co _
  | some x =>
    simp only [dropWs_append]
    congr 1
    simpa [levelOf, soupLevel] using dropWs_decodeSpec u hu (levelOf (soupLevel lvl)) r.hidden co _

/-- the default `eventual_encoding` of the `decode` a receiver's `self.decode(...)` reaches (generated from the signatures) -/
def decodeDefault (r : RNode) : Option PStr :=
  match r.soupXml with
  | some _ => BS.Gen.Pretty.soupDecodeDefaultEnc
  | none => BS.Gen.Pretty.tagDecodeDefaultEnc

/-- Table fact (generated from the signatures of `Tag.decode`, `Tag.decode_contents`, `Tag.encode`, `Tag.encode_contents`,
    `BeautifulSoup.decode`, `Tag.prettify`): every rendering entry point has the same default eventual encoding, and
    `prettify`'s own `encoding` defaults to None (the str flavour) — so `prettify()`, `decode()`, `str()`, `decode_contents()`
    and the text inside `encode()` with arguments omitted all render `<meta>` charsets and the XML declaration alike. -/
theorem default_encodings_agree :
    BS.Gen.Pretty.tagDecodeContentsDefaultEnc = BS.Gen.Pretty.tagDecodeDefaultEnc ∧
    BS.Gen.Pretty.tagEncodeDefaultEnc = BS.Gen.Pretty.tagDecodeDefaultEnc ∧
    BS.Gen.Pretty.tagEncodeContentsDefaultEnc = BS.Gen.Pretty.tagDecodeDefaultEnc ∧
    BS.Gen.Pretty.soupDecodeDefaultEnc = BS.Gen.Pretty.tagDecodeDefaultEnc ∧
    BS.Gen.Pretty.tagDecodeDefaultEnc = some BS.Gen.Pretty.defaultOutputEncoding ∧
    BS.Gen.Pretty.tagPrettifyDefaultEnc = none := by decide +kernel

/-- The two flavours of `prettify`. Without an encoding: the text `decode(indent_level=0)` gives with the encoding argument
    omitted — hence (whitespace unit) the same non-whitespace characters as `decode()`/`str()`; in particular a charset
    declaration in a `<meta>` is rewritten the same way in both. With an encoding `e`: the bytes of the text
    `decode(0, e)` gives — the same non-whitespace characters as the text `encode(e)` hands to the codec. -/
theorem prettify_flavours (u vcp : PStr) (r : RNode) (hd : rdistinct r = true) (hu : ∀ c ∈ u, isSpace c = true) :
    (∃ t, prettifyRaw u vcp none r = .str t ∧ t = recvDecode u vcp (.int 0) (decodeDefault r) false r ∧
      dropWs t = dropWs (recvDecode u vcp .none (decodeDefault r) false r)) ∧
    (∀ e, ∃ t t', prettifyRaw u vcp (some e) r = .bytes e t ∧ encodeImpl u vcp e .none r = .bytes e t' ∧
      t = recvDecode u vcp (.int 0) (some e) false r ∧ dropWs t = dropWs t') := by
  refine ⟨⟨_, ?_, rfl, recv_nonws_equal u vcp (.int 0) _ false r hd hu⟩, fun e => ⟨_, _, rfl, rfl, rfl, ?_⟩⟩
  · unfold prettifyRaw decodeDefault
    cases r.soupXml <;> rfl
  · exact recv_nonws_equal u vcp (.int 0) (some e) false r hd hu

example : prettifyRaw (ofS " ") (ofS "/") none demoRaw =
    .str (ofS "<head>\n <meta charset=\"utf-8\"/>\n <!-- c -->\n t\n</head>\n") ∧
    prettifyRaw (ofS " ") (ofS "/") (some (ofS "latin-1")) demoRaw =
    .bytes (ofS "latin-1") (ofS "<head>\n <meta charset=\"latin-1\"/>\n <!-- c -->\n t\n</head>\n") := by decide
/-- the encodings matter: rendering the pretty text with `eventual_encoding=None` while the plain text uses the default would
    change non-whitespace characters of a `<meta charset>` -/
example : dropWs (recvDecode (ofS " ") (ofS "/") (.int 0) none false demoRaw) ≠
    dropWs (recvDecode (ofS " ") (ofS "/") .none (decodeDefault demoRaw) false demoRaw) := by decide

/-- A tree whose attribute strings do not depend on the encoding (no charset-substituting `<meta>`) and that is not an XML soup
    renders the same text in both flavours: `prettify(e)` is the encoded `prettify()`. -/
theorem prettify_bytes_of_str (u vcp : PStr) (e : PStr) (r : RNode) (hx : r.soupXml ≠ some true)
    (hr : ∀ enc, resolve ⟨enc, vcp⟩ r = resolve ⟨none, vcp⟩ r) :
    ∃ t, prettifyRaw u vcp none r = .str t ∧ prettifyRaw u vcp (some e) r = .bytes e t := by
  refine ⟨_, rfl, ?_⟩
  simp only [prettifyRaw, encodeImpl, recvDecode, soupDecode, tagDecode, hr (some e)]
  cases hs : r.soupXml with
  | none => simp [hr BS.Gen.Pretty.tagDecodeDefaultEnc]
  | some x =>
    have : x = false := by cases x <;> simp_all
    simp [this, xmlDecl, hr BS.Gen.Pretty.soupDecodeDefaultEnc]

example : ∀ enc, resolve ⟨enc, ofS "/"⟩ demoXmlSoup = resolve ⟨none, ofS "/"⟩ demoXmlSoup := fun _ => rfl
example : (RNode.tag { metaInfo with attrBy := [] } []).soupXml ≠ some true ∧
    ∀ enc, resolve ⟨enc, ofS "/"⟩ (.tag { metaInfo with attrBy := [] } []) = resolve ⟨none, ofS "/"⟩ (.tag { metaInfo with attrBy := [] } []) :=
  ⟨by decide, fun _ => rfl⟩

/-- An empty-element tag as the starting point: its tag on a line of its own — indented by the start level, newline after. -/
theorem void_receiver (u vcp : PStr) (l : Int) (enc : Option PStr) (i : TagInfo) (hc : i.canBeEmpty = true)
    (hh : i.hidden = false) (hs : i.soupXml = none) :
    recvDecode u vcp (.int l) enc false (.tag i []) = rep u l ++ formatTag ⟨enc, vcp⟩ i true true ++ [10] ∧
    prettifyRaw u vcp none (.tag i []) = .str (formatTag ⟨BS.Gen.Pretty.tagDecodeDefaultEnc, vcp⟩ i true true ++ [10]) := by
  have hne := formatTag_ne_nil ⟨enc, vcp⟩ i true true hh
  have hne' := formatTag_ne_nil ⟨BS.Gen.Pretty.tagDecodeDefaultEnc, vcp⟩ i true true hh
  constructor
  · simp [recvDecode, RNode.soupXml, hs, tagDecode, RNode.hidden, hh, receiverStream, resolve, resolveL, mkTag, hc, events,
      decodeImpl_eq_run, run_cons, step_empty_out, fullLine, hne, levelOf]
  · simp [prettifyRaw, recvDecode, RNode.soupXml, hs, tagDecode, RNode.hidden, hh, receiverStream, resolve, resolveL, mkTag, hc,
      events, decodeImpl_eq_run, run_cons, step_empty_out, fullLine, hne', levelOf]

example : recvDecode (ofS "  ") (ofS "/") (.int 2) none false (.tag metaInfo []) = ofS "    <meta charset=\"iso-8859-1\"/>\n" := by
  decide
example : metaInfo.canBeEmpty = true ∧ metaInfo.hidden = false ∧ metaInfo.soupXml = none := by decide

/-- Line structure and final newline for every receiver at the level of the objects: a visible receiver gives its own lines, a
    hidden one (the `BeautifulSoup` object) or `decode_contents` the children's, after the declaration line if any; and the
    output, unless empty, ends with a newline. `rPreVisible`: no whitespace-preserving element met outside literal mode is hidden. -/
theorem recv_line_structure (u vcp : PStr) (l : Int) (enc : Option PStr) (co : Bool) (r : RNode) (hd : rdistinct r = true)
    (hv : if (r.hidden || co) = true then rPreVisibleL r.kids = true else rPreVisible r = true) :
    recvDecode u vcp (.int l) enc co r =
      (match r.soupXml with | some x => xmlDecl x enc | none => []) ++
      layout u l (if (r.hidden || co) = true then itemsL 0 (resolveL ⟨enc, vcp⟩ r.kids) else items 0 (resolve ⟨enc, vcp⟩ r)) ∧
    (recvDecode u vcp (.int l) enc co r ≠ [] → (recvDecode u vcp (.int l) enc co r).getLast? = some 10) := by
  have key : recvDecode u vcp (.int l) enc co r =
      (match r.soupXml with | some x => xmlDecl x enc | none => []) ++
      layout u l (if (r.hidden || co) = true then itemsL 0 (resolveL ⟨enc, vcp⟩ r.kids) else items 0 (resolve ⟨enc, vcp⟩ r)) := by
    rw [recv_decode_refines u vcp (.int l) enc co r hd]
    have body : decodeSpec u (some l) r.hidden co (resolve ⟨enc, vcp⟩ r) =
        layout u l (if (r.hidden || co) = true then itemsL 0 (resolveL ⟨enc, vcp⟩ r.kids) else items 0 (resolve ⟨enc, vcp⟩ r)) := by
      by_cases hc : (r.hidden || co) = true
      · simp only [hc, if_true] at hv ⊢
        have := prettyL_layout u (resolveL ⟨enc, vcp⟩ r.kids) l 0 (preVisibleL_resolve _ _ hv)
        simp only [Int.natCast_zero, Int.add_zero] at this
        simp [decodeSpec, hc, kids_resolve, this]
      · simp only [hc, Bool.false_eq_true, if_false] at hv ⊢
        have := pretty_layout u (resolve ⟨enc, vcp⟩ r) l 0 (preVisible_resolve _ _ hv)
        simp only [Int.natCast_zero, Int.add_zero] at this
        simp [decodeSpec, hc, this]
    unfold recvSpec
    cases r.soupXml with
    | none => simpa [levelOf] using body
    | some x => simpa [levelOf, soupLevel] using body
  refine ⟨key, fun hne => ?_⟩
  have he : EndsNl (recvDecode u vcp (.int l) enc co r) := by
    rw [key]
    apply EndsNl.append
    · cases r.soupXml with
      | none => exact Or.inl rfl
      | some x => exact xmlDecl_endsNl x enc
    · exact layout_endsNl u l _
  exact he.getLast hne

example : rPreVisible demoRaw = true ∧ rPreVisibleL demoXmlSoup.kids = true ∧ demoXmlSoup.hidden = true := by decide

/-! ## 10. "re-parses to the same tree once whitespace inside text is disregarded": the token level

    Full statement of the clause: `parse(prettify(t))` and `parse(decode(t))` are the same tree up to whitespace in text nodes.
    `parse` = CPython's `html.parser` tokenizer + bs4's tree builder. The tokenizer is not modelled in this framework (C05's
    `Reparse.lean` models the builder on tokenizer events and likewise takes the events as given), so the clause is proved up
    to the tokenizer: the two outputs, cut into tokens where a tokenizer cuts well-formed output, are the same token sequence
    once adjacent character data is merged and whitespace in it is disregarded. A tree builder is a function of that
    sequence (bs4's merges `handle_data` calls until the next tag; whitespace-only data never opens or closes an element).
    That html.parser really cuts the two texts like this — and the resulting trees — is what the harness' re-parse oracle
    checks on the real outputs (for text pieces that are inert for the tokenizer). -/

/-- Same tokens modulo whitespace in character data, for every tree of objects, unit of whitespace, level and encoding:
    (1) `prettyToks`/`plainToks` are cuts of the real pretty / plain output of a visible receiver — every tag piece and every
    string with a PREFIX (minus whitespace after its closing delimiter) one markup token, the rest character data;
    (2) after merging adjacent character data, removing whitespace from it and dropping empty runs, the two token sequences
    are equal. `specialsOk`: a PREFIX starts with a non-whitespace character (`specials_ok_table`). -/
theorem pretty_same_tokens (u vcp : PStr) (l : Int) (enc : Option PStr) (r : RNode) (hd : rdistinct r = true)
    (hh : r.hidden = false) (hu : ∀ c ∈ u, isSpace c = true) (hok : specialsOk r = true) :
    tagDecode u vcp (.int l) enc false r = textOf (prettyToks ⟨enc, vcp⟩ u l false r) ∧
    tagDecode u vcp .none enc false r = textOf (plainToks ⟨enc, vcp⟩ r) ∧
    canon (prettyToks ⟨enc, vcp⟩ u l false r) = canon (plainToks ⟨enc, vcp⟩ r) := by
  have hdist := distinct_resolve ⟨enc, vcp⟩ r hd
  refine ⟨?_, ?_, ?_⟩
  · rw [prettyToks_text]
    simp [tagDecode, hh, receiverStream, levelOf, pretty_refines u l _ hdist]
  · rw [plainToks_text]
    simp [tagDecode, hh, receiverStream, levelOf, plain_refines]
  · have := eqv_toks ⟨enc, vcp⟩ u hu r l false [] [] hok (Eqv.refl []) []
    simpa [canon] using this

example : specialsOk demoRaw = true ∧ demoRaw.hidden = false := by decide
example : canon (plainToks ⟨none, ofS "/"⟩ demoRaw) =
    [.markup (ofS "<head>"), .markup (ofS "<meta charset=\"iso-8859-1\"/>"), .markup (ofS "<!-- c -->"), .data (ofS "t"),
     .markup (ofS "</head>")] ∧
    prettyToks ⟨none, ofS "/"⟩ (ofS " ") 0 false demoRaw =
    [.data [], .markup (ofS "<head>"), .data [10], .data (ofS " "), .markup (ofS "<meta charset=\"iso-8859-1\"/>"), .data [10],
     .data (ofS " "), .markup (ofS "<!-- c -->"), .data [10], .data (ofS " t\n"), .data [], .markup (ofS "</head>"),
     .data [10]] := by decide
/-- a doctype's newline belongs to the character data after it -/
example : plainToks ⟨none, []⟩ (.str (ofS "<!DOCTYPE ") (ofS ">\n") (ofS "html")) =
    [.markup (ofS "<!DOCTYPE html>"), .data [10]] := by decide

/-- Table fact over the whole generated table of string classes: every PREFIX starts with a character that is not whitespace —
    the hypothesis `specialsOk` of `pretty_same_tokens` holds for every string of every bs4 class, whatever its body. -/
theorem specials_ok_table : ∀ e ∈ BS.Gen.Pretty.stringAffixes, ∀ body, specialsOk (.str e.2.1 e.2.2.1 body) = true := by
  have hall : BS.Gen.Pretty.stringAffixes.all (fun e => specialsOk (.str e.2.1 e.2.2.1 [])) = true := by decide +kernel
  intro e he body
  have := List.all_eq_true.mp hall e he
  cases hp : e.2.1 <;> simp_all [specialsOk]

/-! ## 11. the re-parse clause through the tokenizer MODEL (C05's `reparse_roundtrip_tokenized`)

    Section 10 stops at a *definition* of the token cuts. Here the clause is proved with `parse` = the code-mirror of CPython's
    tokenizer (`Model/Tokenizer.lean`, `feed(text); close()`) + `BeautifulSoupHTMLParser`'s handlers + the construction
    machine (`adapterBuild`), on the class C05's tokenized round trip covers (`RenderWritable`, 'minimal' formatter), with
    the pieces no longer opaque: `toPL` hands `_format_tag`/`output_ready` of C05's renderer to this file's `decodeImpl`.
    The bridge: the pretty output of `ds` IS the plain output of `prettyTreeL u pwt l ds` (whitespace strings `unit^level`,
    `"\n"` added around every tag / non-blank string outside whitespace-preserving elements, text stripped, blank text
    dropped) — `pretty_output_is_plain_output`; and the parse of that tree's text differs from the parse of `ds`'s text only by
    whitespace in character data outside whitespace-preserving elements (`eraseWsL`: every `str.isspace` character removed,
    empty strings dropped; comments, CDATA, doctypes, PIs, element names and everything below a whitespace-preserving
    element compared exactly). -/

open BS.PrettyReparse in
/-- **The pretty output is the plain output of the tree with the whitespace strings added**, character for character: C14's
    loop (`decodeImpl`, levels, literal mode, `strip`, `_indent_string`) run on the pieces C05's renderer computes, at any
    start level, equals C05's `renderL` of `prettyTreeL`; and in plain mode it is `renderL` of the tree itself. For the
    formatters that substitute with `substitute_xml` ('minimal', whatever their `cdata_containing_tags`), every forest
    without hidden elements — `script`/`style` with their unsubstituted text included: both `substitute_xml` and the
    identity commute with `strip` and leave whitespace alone (`SubstOK`) —, a whitespace indent unit. -/
theorem pretty_output_is_plain_output (ci : BS.Render.SCls → BS.Render.ClsInfo) (hci : ∀ c, ci c = BS.Render.assumedMarkup c)
    (f : BS.Render.Fmt) (hf : f.subst = some BS.Render.substXml) (u : PStr) (hu : ∀ c ∈ u, isSpace c = true)
    (pwt : Option (List PStr)) (l : Int) (ds : List BS.Render.Node) (h : noHiddenL ds = true) :
    decodeImpl u (some l) (eventsL (toPL ci f pwt none 0 ds)) = BS.Render.renderL ci f none (prettyTreeL u pwt l ds) ∧
    decodeImpl u none (eventsL (toPL ci f pwt none 0 ds)) = BS.Render.renderL ci f none ds := by
  constructor
  · rw [pretty_refines_contents u l _ (distinctL_toPL ci f pwt ds none 0)]
    exact prettyL_eq_renderL ci hci f hf u hu pwt ds none 0 l h
  · rw [plain_refines_contents, plainL_toPL]

open BS.PrettyReparse in
/-- **Same parse modulo whitespace at the level of the written documents**, for EVERY forest (no writability hypothesis), unit
    of whitespace and level: the tree a parse builds from the document `prettyTreeL` describes equals the one built from the
    forest's own document after `eraseWsL`. `preAgreeL`: an element the pretty-printer lays out is not whitespace-preserving
    for the re-parsing builder (both read `preserve_whitespace_tags`); `CfgWs`: `ASCII_SPACES` ⊆ `str.isspace`, string
    containers do not produce comment/CDATA/PI/declaration/doctype classes. -/
theorem pretty_tree_same_parse (cfg : BS.Builder.Cfg) (hw : CfgWs cfg) (f : BS.Render.Fmt) (u : PStr)
    (hu : ∀ c ∈ u, isSpace c = true) (pwt : Option (List PStr)) (l : Int) (ds : List BS.Render.Node)
    (ha : preAgreeL cfg pwt ds = true) :
    eraseWsL cfg (BS.Writer.normalise cfg (BS.Render.toWDocL f (prettyTreeL u pwt l ds))) =
      eraseWsL cfg (BS.Writer.normalise cfg (BS.Render.toWDocL f ds)) :=
  erase_normalise_pretty hw f u hu pwt l ds ha

open BS.PrettyReparse in
/-- **`RenderWritable` is inherited by the pretty tree**: all three parts — the renderer-side class `renderWritableL`, C04's
    `Writable` under `minimalChoices` (restated path-independently: `writable_minimal_iff`; text is always writable under
    the minimal spelling, so stripping and the added whitespace strings are harmless) and `Representable` (a laid-out
    element gets children, but it is not a void name). For every unit (whitespace or not), level and `pwt`. -/
theorem pretty_tree_render_writable (bcfg : BS.Builder.Cfg) (acfg : BS.Adapter.ACfg) (f : BS.Render.Fmt) (u : PStr)
    (pwt : Option (List PStr)) (l : Int) (ds : List BS.Render.Node) (h : BS.Props.C05.RenderWritable bcfg acfg f ds) :
    BS.Props.C05.RenderWritable bcfg acfg f (prettyTreeL u pwt l ds) := by
  obtain ⟨h1, h2, h3⟩ := h
  obtain ⟨k1, k2, k3⟩ := parts_treeL acfg.isVoid bcfg.rootName f u pwt ds l h1
    ((writable_minimal_iff acfg.isVoid _).mp h2) h3
  exact ⟨k1, (writable_minimal_iff acfg.isVoid _).mpr k2, k3⟩

open BS.PrettyReparse in
/-- **`prettify_reparse_tokenized`** — "pretty-printed output re-parses to the same tree as the plain output once whitespace
    inside text is disregarded", with the parser modelled end to end. For every builder/adapter configuration (`CfgOK`, `CfgWs`,
    `EntOK`), `ParamsOK` tokenizer parameters, the 'minimal' formatter, whitespace unit `u`, start level `l`, and every forest
    `RenderWritable` forest `ds` (its pretty tree then is, too: `pretty_tree_render_writable`): tokenizing `decode(indent_level=l)`'s text (the loop of `Tag.decode` on the real
    pieces) with the model of CPython's tokenizer and building the tree gives, after `eraseWsL`, the same tree as doing so
    with `decode()`'s text — and that tree is the normal form of `ds`. Elements, nesting, special strings and everything inside
    whitespace-preserving elements are compared exactly; character data elsewhere up to its whitespace characters. -/
theorem prettify_reparse_tokenized (bcfg : BS.Builder.Cfg) (acfg : BS.Adapter.ACfg) (hc : BS.Builder.CfgOK bcfg)
    (hw : CfgWs bcfg) (P : BS.Tokenizer.Params) (hP : BS.WriterText.ParamsOK P) (he : BS.WriterMin.EntOK acfg)
    (ci : BS.Render.SCls → BS.Render.ClsInfo) (hci : ∀ c, ci c = BS.Render.assumedMarkup c) (f : BS.Render.Fmt)
    (hf : BS.Render.IsMinimal f) (u : PStr) (hu : ∀ c ∈ u, isSpace c = true) (pwt : Option (List PStr)) (l : Int)
    (ds : List BS.Render.Node) (h : BS.Props.C05.RenderWritable bcfg acfg f ds) (ha : preAgreeL bcfg pwt ds = true) :
    eraseWsL bcfg (BS.Adapter.adapterBuild bcfg acfg (BS.Tokenizer.callbacks (BS.Tokenizer.run P
        (decodeImpl u (some l) (eventsL (toPL ci f pwt none 0 ds)))))).1 =
      eraseWsL bcfg (BS.Adapter.adapterBuild bcfg acfg (BS.Tokenizer.callbacks (BS.Tokenizer.run P
        (decodeImpl u none (eventsL (toPL ci f pwt none 0 ds)))))).1 ∧
    eraseWsL bcfg (BS.Adapter.adapterBuild bcfg acfg (BS.Tokenizer.callbacks (BS.Tokenizer.run P
        (decodeImpl u (some l) (eventsL (toPL ci f pwt none 0 ds)))))).1 =
      eraseWsL bcfg (BS.Writer.normalise bcfg (BS.Render.toWDocL f ds)) := by
  obtain ⟨e1, e2⟩ := pretty_output_is_plain_output ci hci f hf.1 u hu pwt l ds (noHiddenL_of_writable acfg.isVoid f ds h.1)
  have h' := pretty_tree_render_writable bcfg acfg f u pwt l ds h
  rw [e1, e2, BS.Props.C05.reparse_roundtrip_tokenized bcfg acfg hc P hP he ci hci f hf _ h',
    BS.Props.C05.reparse_roundtrip_tokenized bcfg acfg hc P hP he ci hci f hf _ h]
  exact ⟨pretty_tree_same_parse bcfg hw f u hu pwt l ds ha, pretty_tree_same_parse bcfg hw f u hu pwt l ds ha⟩

/-- `pre`/`textarea` as the pretty-printer's whitespace-preserving names; C04's sample configuration preserves `pre` -/
def tkPwt : Option (List PStr) := some [ofS "pre", ofS "textarea"]

/-- doctype, attributes, text to strip, a blank string, void element, comment, nested elements, a `<pre>` with an element
    and significant whitespace inside -/
def tkForest : List BS.Render.Node :=
  [.str .doctype (ofS "html"),
   .tag (BS.Props.C05.tg "p" [(ofS "id", .str (ofS "x&y"))])
     [.str .navigable (ofS " a<b  & c "), .tag (BS.Props.C05.tg "br" [] true) [], .str .navigable (ofS " \n"),
      .str .comment (ofS " note "), .tag (BS.Props.C05.tg "b") [.str .navigable (ofS "x")], .tag (BS.Props.C05.tg "i") []],
   .tag (BS.Props.C05.tg "pre") [.str .navigable (ofS " \n k "), .tag (BS.Props.C05.tg "b") [.str .navigable (ofS " y ")]]]

theorem tk_cfg_ws : BS.PrettyReparse.CfgWs BS.Props.C04.xB :=
  ⟨by decide, by intro n c h; simp only [BS.Props.C04.xB] at h; split at h <;> simp_all <;> (subst h; decide)⟩

example : BS.Props.C05.RenderWritable BS.Props.C04.xB BS.Props.C05.tkA BS.Props.C05.minimalHtml tkForest := by decide +kernel
example : BS.Props.C05.RenderWritable BS.Props.C04.xB BS.Props.C05.tkA BS.Props.C05.minimalHtml
    (BS.PrettyReparse.prettyTreeL (ofS " ") tkPwt 0 tkForest) := by decide +kernel
example : BS.PrettyReparse.preAgreeL BS.Props.C04.xB tkPwt tkForest = true := by decide
example : decodeImpl (ofS " ") (some 0) (eventsL (BS.PrettyReparse.toPL BS.Gen.C05.liveClsInfo BS.Props.C05.minimalHtml tkPwt none 0 tkForest)) =
    ofS "<!DOCTYPE html>\n<p id=\"x&amp;y\">\n a&lt;b  &amp; c\n <br/>\n <!-- note -->\n <b>\n  x\n </b>\n <i>\n </i>\n</p>\n<pre> \n k <b> y </b></pre>\n" := by
  decide +kernel
/-- the theorem on the sample: both parses, erased, are the erased normal form below -/
example : BS.PrettyReparse.eraseWsL BS.Props.C04.xB (BS.Adapter.adapterBuild BS.Props.C04.xB BS.Props.C05.tkA
      (BS.Tokenizer.callbacks (BS.Tokenizer.run BS.Props.C04.xP (decodeImpl (ofS " ") (some 0)
        (eventsL (BS.PrettyReparse.toPL BS.Gen.C05.liveClsInfo BS.Props.C05.minimalHtml tkPwt none 0 tkForest)))))).1 =
    BS.PrettyReparse.eraseWsL BS.Props.C04.xB
      (BS.Writer.normalise BS.Props.C04.xB (BS.Render.toWDocL BS.Props.C05.minimalHtml tkForest)) :=
  (prettify_reparse_tokenized _ BS.Props.C05.tkA (by decide) tk_cfg_ws _ BS.Props.C04.xP_ok ⟨rfl, rfl, rfl⟩ BS.Gen.C05.liveClsInfo
    BS.Props.C05.class_table_live _ BS.Props.C05.minimal_is_minimal.1 (ofS " ") (by decide) tkPwt 0 tkForest (by decide +kernel)
    (by decide)).2
/-- what both parses are, after erasing -/
example : BS.PrettyReparse.eraseWsL BS.Props.C04.xB
      (BS.Writer.normalise BS.Props.C04.xB (BS.Render.toWDocL BS.Props.C05.minimalHtml tkForest)) =
    [.text 5 (ofS "html"),
     .elem (ofS "p") none [.text 0 (ofS "a<b&c"), .elem (ofS "br") none [], .text 1 (ofS " note "),
       .elem (ofS "b") none [.text 0 (ofS "x")], .elem (ofS "i") none []],
     .elem (ofS "pre") none [.text 0 (ofS " \n k "), .elem (ofS "b") none [.text 0 (ofS " y ")]]] := by rfl
/-! Outside `RenderWritable` (script/style, single-quoted values, other formatters, hidden elements, non-whitespace units) the
    clause rests on the harness stream `reparse-model` (real prettify()/decode() text → real parser vs tokenizer model + builder
    model, erased trees compared). -/

/-- script and style (outside `RenderWritable`: C04's writer has no raw-text elements, so the tokenizer step is recorded for
    them): the text-level bridge and the document-level comparison still apply — their text is not substituted, is stripped
    and indented like any other text, and the two documents build the same tree modulo whitespace -/
def tkScript : List BS.Render.Node :=
  [.tag (BS.Props.C05.tg "div") [.tag (BS.Props.C05.tg "script") [.str .script (ofS " a<b && c ")],
     .tag (BS.Props.C05.tg "style") [.str .stylesheet (ofS "\n")], .str .navigable (ofS " x<y ")]]
example : BS.PrettyReparse.noHiddenL tkScript = true ∧ BS.PrettyReparse.preAgreeL BS.Props.C04.xB tkPwt tkScript = true ∧
    BS.Render.renderWritableL BS.Props.C05.tkA.isVoid BS.Props.C05.minimalHtml tkScript = false := by decide
example : decodeImpl (ofS " ") (some 0) (eventsL (BS.PrettyReparse.toPL BS.Gen.C05.liveClsInfo BS.Props.C05.minimalHtml tkPwt none 0 tkScript)) =
    ofS "<div>\n <script>\n  a<b && c\n </script>\n <style>\n </style>\n x&lt;y\n</div>\n" := by decide +kernel
/-- a hidden element is outside the bridge: it has no pieces, so no line, while `prettyTree` would give it one -/
example : BS.PrettyReparse.noHiddenL [.tag { BS.Props.C05.tg "p" with hidden := true } []] = false := by decide

/-- `preAgreeL` is needed: were `p` whitespace-preserving for the builder only, the added whitespace would survive the erasure -/
example : BS.PrettyReparse.preAgreeL { BS.Props.C04.xB with preserve := fun n => n == ofS "p" } tkPwt tkForest = false := by decide

end BS.Props.C14
