import BSModel.Proofs.Formatter
import BSModel.Proofs.FormatterBuild
import BSModel.Proofs.FormatterPopulate
import BSModel.Proofs.FormatterHidden
import BSModel.Gen.FormatterHtml5
import BSModel.Gen.Formatter
/-! # C15 — formatter options take effect and output is deterministic

    Every option accepted by a formatter constructor has its documented effect on output, whichever class is used and
    however the formatter is supplied; a custom substitution function determines the rendered form of every text node and
    attribute value outside cdata-containing tags and of nothing else; attributes come out sorted whatever the insertion
    order; nothing else whose order depends on the hash seed (the alternatives of the entity regex, the
    `cdata_containing_tags` set) reaches the output.

    `toks` is the formatter-independent skeleton of a rendering (`Proofs/Formatter.lean`): literal pieces, ordinary strings
    with their parent's name, attribute values, empty-valued attributes, ends of void-element tags. `render_eq_toks` says
    rendering is the concatenation of the per-token interpretations; each `option_effect_*` says which tokens an option
    re-interprets and how, everything else being interpreted as without the option. -/
namespace BS.Props.C15
open BS BS.Formatter

abbrev SCRIPT : PStr := [115, 99, 114, 105, 112, 116]
abbrev STYLE : PStr := [115, 116, 121, 108, 101]
abbrev SLASH : PStr := [47]
abbrev SP : PStr := [32]

/-- interpretation of the function identities used in the examples: the two modelled built-ins, identity otherwise -/
def builtin : Subst → PStr → PStr
  | .xml => substXml
  | .html => reSub BS.Gen.htmlAlts
  | _ => id

/-- a user function for the examples: wraps its argument in `[` `]` -/
def bracket : Subst → PStr → PStr
  | .custom _ => fun s => [91] ++ s ++ [93]
  | s => builtin s

/-! ## constructors -/

/-- The signatures of the three live constructors have the defaults the model's `Args` has. -/
theorem defaults_table :
    BS.Gen.formatterDefaults = ({} : Args) ∧ BS.Gen.htmlFormatterDefaults = ({} : Args) ∧
    BS.Gen.xmlFormatterDefaults = ({} : Args) ∧ BS.Gen.formatterDefaultLanguage = none := by decide

/-- `indent` as documented: a non-negative int is that many spaces, a negative int or `None` nothing, a string itself; any
    other object one space (undocumented, formatter.py:134-135). -/
theorem indent_normalisation :
    (∀ n : Nat, normIndent (.int n) = List.replicate n 32) ∧ (∀ i : Int, i < 0 → normIndent (.int i) = []) ∧
    normIndent .none = [] ∧ (∀ s, normIndent (.str s) = s) ∧ normIndent .other = SP := by
  refine ⟨fun n => by simp [normIndent], fun i hi => ?_, rfl, fun _ => rfl, rfl⟩
  simp [normIndent, Int.toNat_of_nonpos (Int.le_of_lt hi)]

example : normIndent (.int 3) = [32, 32, 32] ∧ normIndent (.int (-1)) = [] ∧ normIndent (.str [9]) = [9] := by decide

/-- Every option accepted by each of the three constructors reaches the formatter object: the object is exactly the
    normalised options (and the language the class stands for). -/
theorem ctor_forwards_all (a : Args) :
    (∀ l, mkFormatter l a =
      { language := l.getD .html, entity_substitution := a.entity_substitution,
        void_element_close_prefix := a.void_element_close_prefix,
        cdata_containing_tags := a.cdata_containing_tags.getD (if l.getD .html = .xml then [] else [SCRIPT, STYLE]),
        empty_attributes_are_booleans := a.empty_attributes_are_booleans, indent := normIndent a.indent }) ∧
    mkHTMLFormatter a =
      { language := .html, entity_substitution := a.entity_substitution,
        void_element_close_prefix := a.void_element_close_prefix,
        cdata_containing_tags := a.cdata_containing_tags.getD [SCRIPT, STYLE],
        empty_attributes_are_booleans := a.empty_attributes_are_booleans, indent := normIndent a.indent } ∧
    mkXMLFormatter a =
      { language := .xml, entity_substitution := a.entity_substitution,
        void_element_close_prefix := a.void_element_close_prefix,
        cdata_containing_tags := a.cdata_containing_tags.getD [],
        empty_attributes_are_booleans := a.empty_attributes_are_booleans, indent := normIndent a.indent } := by
  refine ⟨fun l => ?_, ?_, ?_⟩ <;>
    cases h : a.cdata_containing_tags <;> simp [mkFormatter, mkFormatterCls, mkHTMLFormatter, mkXMLFormatter, default_, defaultCls, h, BS.Gen.fmtHtmlDefaultCdata]

/-- No two settings that differ after normalisation give the same formatter object (no option is dropped), for each class. -/
theorem ctor_injective (l : Option Lang) (a b : Args) :
    mkFormatter l a = mkFormatter l b ↔
      a.entity_substitution = b.entity_substitution ∧ a.void_element_close_prefix = b.void_element_close_prefix ∧
      default_ (l.getD .html) a.cdata_containing_tags = default_ (l.getD .html) b.cdata_containing_tags ∧
      a.empty_attributes_are_booleans = b.empty_attributes_are_booleans ∧ normIndent a.indent = normIndent b.indent := by
  simp [mkFormatter, mkFormatterCls, default_, Cfg.mk.injEq]

example : mkHTMLFormatter { indent := .int 3 } ≠ mkHTMLFormatter {} := by decide
example : mkXMLFormatter { indent := .str [9] } ≠ mkXMLFormatter {} := by decide

/-- Witness of the defect in 4.13.0 as shipped (formatter.py:206-212, :228-234): the subclasses' constructors accept
    `indent` and lose it — whatever is passed, the object has the default unit, and `indent=3` equals no `indent` at all. -/
theorem old_ctor_loses_indent (a : Args) :
    (mkHTMLFormatterOld a).indent = SP ∧ (mkXMLFormatterOld a).indent = SP ∧
    mkHTMLFormatterOld { a with indent := .int 3 } = mkHTMLFormatterOld { a with indent := .str [9] } ∧
    (mkHTMLFormatter { a with indent := .int 3 }).indent = [32, 32, 32] ∧
    (mkXMLFormatter { a with indent := .str [9] }).indent = [9] := by
  simp [mkHTMLFormatterOld, mkXMLFormatterOld, mkHTMLFormatter, mkXMLFormatter, mkFormatter, mkFormatterCls, normIndent]

/-! ## the registries and `formatter_for_name` -/

abbrev N_html : PStr := [104, 116, 109, 108]
abbrev N_html5 : PStr := [104, 116, 109, 108, 53]
abbrev N_html5_412 : PStr := [104, 116, 109, 108, 53, 45, 52, 46, 49, 50]
abbrev N_minimal : PStr := [109, 105, 110, 105, 109, 97, 108]

/-- The live registries hold exactly the documented names, and each registered object is what the (repaired) constructor
    of that registry's class builds from the arguments written in formatter.py:238-263. -/
theorem registry_table :
    BS.Gen.fmtHtmlRegistry =
      [ (none, mkHTMLFormatter {}),
        (some N_html, mkHTMLFormatter { entity_substitution := .html }),
        (some N_html5, mkHTMLFormatter { entity_substitution := .html5, void_element_close_prefix := some [],
                                         empty_attributes_are_booleans := true }),
        (some N_html5_412, mkHTMLFormatter { entity_substitution := .html, void_element_close_prefix := some [],
                                             empty_attributes_are_booleans := true }),
        (some N_minimal, mkHTMLFormatter { entity_substitution := .xml }) ] ∧
    BS.Gen.fmtXmlRegistry =
      [ (none, mkXMLFormatter {}),
        (some N_html, mkXMLFormatter { entity_substitution := .html }),
        (some N_minimal, mkXMLFormatter { entity_substitution := .xml }) ] := by decide

/-- a registry lookup raises `KeyError` exactly for the keys the registry does not have -/
theorem lookup_keyError_iff (reg : List (Option PStr × Cfg)) (n : Option PStr) :
    lookup reg n = .keyError ↔ n ∉ reg.map (·.1) := by
  unfold lookup
  cases h : reg.find? (fun e => e.1 == n) with
  | none =>
    simp only [true_iff]
    rw [List.find?_eq_none] at h
    intro hm
    obtain ⟨e, he, rfl⟩ := List.mem_map.1 hm
    exact h e he (by simp)
  | some e =>
    simp only [reduceCtorEq, false_iff, Classical.not_not]
    have h1 := List.find?_some h
    have h2 := List.mem_of_find?_eq_some h
    exact List.mem_map.2 ⟨e, h2, by simpa using h1⟩

/-- `formatter_for_name`, for both tree flavours: a `Formatter` object is used as it is; a bare function becomes the
    flavour's class constructed with that function and otherwise default options; a name is looked up in the flavour's
    registry, and `KeyError` is raised exactly for the names that registry does not have (so `"html5"` on an XML tree). -/
theorem formatter_for_name_spec (isXml : Bool) :
    (∀ c, formatterForName BS.Gen.fmtHtmlRegistry BS.Gen.fmtXmlRegistry isXml (.obj c) = .ok c) ∧
    (∀ s, formatterForName BS.Gen.fmtHtmlRegistry BS.Gen.fmtXmlRegistry isXml (.fn s) = .ok
      { language := if isXml then .xml else .html, entity_substitution := s, void_element_close_prefix := some SLASH,
        cdata_containing_tags := if isXml then [] else [SCRIPT, STYLE], empty_attributes_are_booleans := false,
        indent := SP }) ∧
    (∀ n, formatterForName BS.Gen.fmtHtmlRegistry BS.Gen.fmtXmlRegistry isXml (.name n) = .keyError ↔
      n ∉ (if isXml then [none, some N_html, some N_minimal]
           else [none, some N_html, some N_html5, some N_html5_412, some N_minimal])) ∧
    (∀ n c, formatterForName BS.Gen.fmtHtmlRegistry BS.Gen.fmtXmlRegistry isXml (.name n) = .ok c →
      (n, c) ∈ (if isXml then BS.Gen.fmtXmlRegistry else BS.Gen.fmtHtmlRegistry)) := by
  refine ⟨fun _ => rfl, fun s => ?_, fun n => ?_, fun n c h => ?_⟩
  · cases isXml <;> rfl
  · simp only [formatterForName, lookup_keyError_iff]
    cases isXml <;> simp [BS.Gen.fmtHtmlRegistry, BS.Gen.fmtXmlRegistry]
  · simp only [formatterForName, lookup] at h
    cases hf : (if isXml then BS.Gen.fmtXmlRegistry else BS.Gen.fmtHtmlRegistry).find? (fun e => e.1 == n) with
    | none => rw [hf] at h; exact Resolved.noConfusion h
    | some e =>
      rw [hf] at h
      have h1 := List.find?_some hf
      have h2 := List.mem_of_find?_eq_some hf
      have : e.2 = c := by injection h
      have h3 : e.1 = n := by simpa using h1
      rw [← this, ← h3]; exact h2

example : formatterForName BS.Gen.fmtHtmlRegistry BS.Gen.fmtXmlRegistry true (.name (some N_html5)) = .keyError := by decide
example : formatterForName BS.Gen.fmtHtmlRegistry BS.Gen.fmtXmlRegistry false (.name (some N_html5))
    = .ok (mkHTMLFormatter { entity_substitution := .html5, void_element_close_prefix := some [],
                             empty_attributes_are_booleans := true }) := by decide
example : formatterForName BS.Gen.fmtHtmlRegistry BS.Gen.fmtXmlRegistry true (.fn (.custom 0))
    = .ok (mkXMLFormatter { entity_substitution := .custom 0 }) := by decide

/-! ## effect of each option, per class

    The general statement is about `Formatter(language, …)`; `HTMLFormatter(…)` and `XMLFormatter(…)` are the instances
    `language = HTML`/`XML` because their (repaired) constructors forward every option. -/

/-- Rendering is the concatenation of the formatter's interpretation of a token list that does not depend on the
    formatter. -/
theorem render_skeleton (c : Cfg) (i : Subst → PStr → PStr) (par : Option PStr) (n : Node) :
    render c i par n = (toks par n).flatMap (interpTok c i) := render_eq_toks c i par n

/-- `void_element_close_prefix = p` (base class): exactly the ends of void-element tags are written `p or ""`. -/
theorem option_effect_void_Formatter (l : Option Lang) (a : Args) (p : Option PStr) (i : Subst → PStr → PStr)
    (par : Option PStr) (n : Node) :
    render (mkFormatter l { a with void_element_close_prefix := p }) i par n
      = (toks par n).flatMap (withVoid (p.getD []) (interpTok (mkFormatter l a) i)) := effect_void _ l a p i par n
/-- the same for `HTMLFormatter` -/
theorem option_effect_void_HTMLFormatter (a : Args) (p : Option PStr) (i : Subst → PStr → PStr) (par : Option PStr) (n : Node) :
    render (mkHTMLFormatter { a with void_element_close_prefix := p }) i par n
      = (toks par n).flatMap (withVoid (p.getD []) (interpTok (mkHTMLFormatter a) i)) := effect_void _ _ a p i par n
/-- the same for `XMLFormatter` -/
theorem option_effect_void_XMLFormatter (a : Args) (p : Option PStr) (i : Subst → PStr → PStr) (par : Option PStr) (n : Node) :
    render (mkXMLFormatter { a with void_element_close_prefix := p }) i par n
      = (toks par n).flatMap (withVoid (p.getD []) (interpTok (mkXMLFormatter a) i)) := effect_void _ _ a p i par n

/-- `<br/>`, `<br>`, `<br />` and `None` behaving as `""` -/
example :
    let br : Node := .tag [98, 114] [] [] true false []
    render (mkHTMLFormatter {}) builtin none br = [60, 98, 114, 47, 62] ∧
    render (mkHTMLFormatter { void_element_close_prefix := some [] }) builtin none br = [60, 98, 114, 62] ∧
    render (mkXMLFormatter { void_element_close_prefix := some [32, 47] }) builtin none br = [60, 98, 114, 32, 47, 62] ∧
    render (mkFormatter none { void_element_close_prefix := none }) builtin none br = [60, 98, 114, 62] := by decide

/-- `entity_substitution = s` (base class): exactly the ordinary strings outside the cdata-containing tags, the attribute
    values, and the value of empty attributes that are not written as booleans go through `s` (unchanged if `s` is `None`). -/
theorem option_effect_subst_Formatter (l : Option Lang) (a : Args) (s : Subst) (i : Subst → PStr → PStr) (par : Option PStr) (n : Node) :
    render (mkFormatter l { a with entity_substitution := s }) i par n
      = (toks par n).flatMap (withSubst s i (mkFormatter l a).cdata_containing_tags a.empty_attributes_are_booleans
          (interpTok (mkFormatter l a) i)) := effect_subst _ l a s i par n
/-- the same for `HTMLFormatter` -/
theorem option_effect_subst_HTMLFormatter (a : Args) (s : Subst) (i : Subst → PStr → PStr) (par : Option PStr) (n : Node) :
    render (mkHTMLFormatter { a with entity_substitution := s }) i par n
      = (toks par n).flatMap (withSubst s i (mkHTMLFormatter a).cdata_containing_tags a.empty_attributes_are_booleans
          (interpTok (mkHTMLFormatter a) i)) := effect_subst _ _ a s i par n
/-- the same for `XMLFormatter` -/
theorem option_effect_subst_XMLFormatter (a : Args) (s : Subst) (i : Subst → PStr → PStr) (par : Option PStr) (n : Node) :
    render (mkXMLFormatter { a with entity_substitution := s }) i par n
      = (toks par n).flatMap (withSubst s i (mkXMLFormatter a).cdata_containing_tags a.empty_attributes_are_booleans
          (interpTok (mkXMLFormatter a) i)) := effect_subst _ _ a s i par n

/-- `cdata_containing_tags = cd` (base class): exactly the ordinary strings are affected — verbatim when the parent's name
    is in `cd` (or in the language's default when `cd` is `None`), substituted otherwise. -/
theorem option_effect_cdata_Formatter (l : Option Lang) (a : Args) (cd : Option (List PStr)) (i : Subst → PStr → PStr)
    (par : Option PStr) (n : Node) :
    render (mkFormatter l { a with cdata_containing_tags := cd }) i par n
      = (toks par n).flatMap (withCdata (default_ (l.getD .html) cd) a.entity_substitution i (interpTok (mkFormatter l a) i)) :=
  effect_cdata _ l a cd i par n
/-- the same for `HTMLFormatter`, whose default is `{script, style}` -/
theorem option_effect_cdata_HTMLFormatter (a : Args) (cd : Option (List PStr)) (i : Subst → PStr → PStr) (par : Option PStr) (n : Node) :
    render (mkHTMLFormatter { a with cdata_containing_tags := cd }) i par n
      = (toks par n).flatMap (withCdata (cd.getD [SCRIPT, STYLE]) a.entity_substitution i (interpTok (mkHTMLFormatter a) i)) := by
  have := effect_cdata BS.Gen.fmtHtmlDefaultCdata (some .html) a cd i par n
  cases cd <;> simpa [default_, defaultCls, BS.Gen.fmtHtmlDefaultCdata, mkHTMLFormatter, mkFormatter] using this
/-- the same for `XMLFormatter`, whose default is the empty set -/
theorem option_effect_cdata_XMLFormatter (a : Args) (cd : Option (List PStr)) (i : Subst → PStr → PStr) (par : Option PStr) (n : Node) :
    render (mkXMLFormatter { a with cdata_containing_tags := cd }) i par n
      = (toks par n).flatMap (withCdata (cd.getD []) a.entity_substitution i (interpTok (mkXMLFormatter a) i)) := by
  have := effect_cdata BS.Gen.fmtHtmlDefaultCdata (some .xml) a cd i par n
  cases cd <;> simpa [default_, defaultCls, mkXMLFormatter, mkFormatter] using this

/-- `empty_attributes_are_booleans = b` (base class): exactly the attributes whose value is `""` are affected — written as
    the bare name when `b`, as `name=<quoted substituted "">` otherwise. -/
theorem option_effect_eab_Formatter (l : Option Lang) (a : Args) (b : Bool) (i : Subst → PStr → PStr) (par : Option PStr) (n : Node) :
    render (mkFormatter l { a with empty_attributes_are_booleans := b }) i par n
      = (toks par n).flatMap (withEab b a.entity_substitution i (interpTok (mkFormatter l a) i)) := effect_eab _ l a b i par n
/-- the same for `HTMLFormatter` -/
theorem option_effect_eab_HTMLFormatter (a : Args) (b : Bool) (i : Subst → PStr → PStr) (par : Option PStr) (n : Node) :
    render (mkHTMLFormatter { a with empty_attributes_are_booleans := b }) i par n
      = (toks par n).flatMap (withEab b a.entity_substitution i (interpTok (mkHTMLFormatter a) i)) := effect_eab _ _ a b i par n
/-- the same for `XMLFormatter` -/
theorem option_effect_eab_XMLFormatter (a : Args) (b : Bool) (i : Subst → PStr → PStr) (par : Option PStr) (n : Node) :
    render (mkXMLFormatter { a with empty_attributes_are_booleans := b }) i par n
      = (toks par n).flatMap (withEab b a.entity_substitution i (interpTok (mkXMLFormatter a) i)) := effect_eab _ _ a b i par n

/-- `indent = x` (base class): pretty-printing writes the normalised unit `depth` times wherever an indentation of that
    depth stands (the item list does not depend on `indent`), and plain `decode()` is not affected at all. -/
theorem option_effect_indent_Formatter (l : Option Lang) (a : Args) (x : IndentArg) (i : Subst → PStr → PStr) (lv : Nat)
    (par : Option PStr) (n : Node) :
    pretty (mkFormatter l { a with indent := x }) i lv par n = fillInd (normIndent x) (prettyItems (mkFormatter l a) i lv false par n)
    ∧ render (mkFormatter l { a with indent := x }) i par n = render (mkFormatter l a) i par n := effect_indent _ l a x i lv par n
/-- the same for `HTMLFormatter` — true of the repaired constructor only (see `old_ctor_loses_indent`) -/
theorem option_effect_indent_HTMLFormatter (a : Args) (x : IndentArg) (i : Subst → PStr → PStr) (lv : Nat) (par : Option PStr) (n : Node) :
    pretty (mkHTMLFormatter { a with indent := x }) i lv par n = fillInd (normIndent x) (prettyItems (mkHTMLFormatter a) i lv false par n)
    ∧ render (mkHTMLFormatter { a with indent := x }) i par n = render (mkHTMLFormatter a) i par n := effect_indent _ _ a x i lv par n
/-- the same for `XMLFormatter` — true of the repaired constructor only -/
theorem option_effect_indent_XMLFormatter (a : Args) (x : IndentArg) (i : Subst → PStr → PStr) (lv : Nat) (par : Option PStr) (n : Node) :
    pretty (mkXMLFormatter { a with indent := x }) i lv par n = fillInd (normIndent x) (prettyItems (mkXMLFormatter a) i lv false par n)
    ∧ render (mkXMLFormatter { a with indent := x }) i par n = render (mkXMLFormatter a) i par n := effect_indent _ _ a x i lv par n

/-- `<p a="" b="&"><br/>x&amp;y<script>1&2</script><!--&--></p>` under "minimal", and what each option changes -/
def sample : Node :=
  .tag [112] [] [([98], .str [38]), ([97], .str [])] false false
    [ .tag [98, 114] [] [] true false [], .str .text [120, 38, 121],
      .tag SCRIPT [] [] false false [.str .text [49, 38, 50]], .str .comment [38] ]

example : render (mkHTMLFormatter { entity_substitution := .xml }) builtin none sample
    = ofS "<p a=\"\" b=\"&amp;\"><br/>x&amp;y<script>1&2</script><!--&--></p>" := by decide +kernel
example : render (mkHTMLFormatter { entity_substitution := .xml, void_element_close_prefix := some [] }) builtin none sample
    = ofS "<p a=\"\" b=\"&amp;\"><br>x&amp;y<script>1&2</script><!--&--></p>" := by decide +kernel
example : render (mkHTMLFormatter { entity_substitution := .xml, empty_attributes_are_booleans := true }) builtin none sample
    = ofS "<p a b=\"&amp;\"><br/>x&amp;y<script>1&2</script><!--&--></p>" := by decide +kernel
example : render (mkHTMLFormatter { entity_substitution := .xml, cdata_containing_tags := some [] }) builtin none sample
    = ofS "<p a=\"\" b=\"&amp;\"><br/>x&amp;y<script>1&amp;2</script><!--&--></p>" := by decide +kernel
example : render (mkXMLFormatter { entity_substitution := .xml }) builtin none sample
    = ofS "<p a=\"\" b=\"&amp;\"><br/>x&amp;y<script>1&amp;2</script><!--&--></p>" := by decide +kernel
example : render (mkHTMLFormatter {}) builtin none sample
    = ofS "<p a=\"\" b=\"&\"><br/>x&y<script>1&2</script><!--&--></p>" := by decide +kernel
example : pretty (mkHTMLFormatter { entity_substitution := .xml, indent := .str [9] }) builtin 0 none sample
    = ofS "<p a=\"\" b=\"&amp;\">\n\t<br/>\n\tx&amp;y\n\t<script>\n\t\t1&2\n\t</script>\n\t<!--&-->\n</p>\n" := by decide +kernel
example : pretty (mkHTMLFormatterOld { entity_substitution := .xml, indent := .str [9] }) builtin 0 none sample
    = ofS "<p a=\"\" b=\"&amp;\">\n <br/>\n x&amp;y\n <script>\n  1&2\n </script>\n <!--&-->\n</p>\n" := by decide +kernel

example : render (mkXMLFormatter { entity_substitution := .xml, empty_attributes_are_booleans := true }) builtin none sample
    = ofS "<p a b=\"&amp;\"><br/>x&amp;y<script>1&amp;2</script><!--&--></p>" := by decide +kernel
example : render (mkXMLFormatter { entity_substitution := .xml, cdata_containing_tags := some [SCRIPT] }) builtin none sample
    = ofS "<p a=\"\" b=\"&amp;\"><br/>x&amp;y<script>1&2</script><!--&--></p>" := by decide +kernel
example : pretty (mkXMLFormatter { entity_substitution := .xml, indent := .int 0 }) builtin 0 none sample
    = ofS "<p a=\"\" b=\"&amp;\">\n<br/>\nx&amp;y\n<script>\n1&amp;2\n</script>\n<!--&-->\n</p>\n" := by decide +kernel

/-! ### user subclasses that declare their own `HTML_DEFAULTS` -/

/-- `_default` reads the table through the instance: a subclass of `Formatter`/`HTMLFormatter`/`XMLFormatter` whose
    `HTML_DEFAULTS['cdata_containing_tags']` is `hd` gets `hd` when `cdata_containing_tags` is not passed and the language is
    not XML, nothing for XML, and the argument itself (the empty set included) when it is passed. -/
theorem subclass_defaults_take_effect (hd : List PStr) (l : Option Lang) (a : Args) :
    (mkFormatterCls hd l { a with cdata_containing_tags := none }).cdata_containing_tags
      = (if l.getD .html = .xml then [] else hd) ∧
    ∀ cd, (mkFormatterCls hd l { a with cdata_containing_tags := some cd }).cdata_containing_tags = cd := by
  simp [mkFormatterCls, defaultCls]

/-- Every option has the same effect in such a subclass as in the stock classes (the five `option_effect_*` statements with
    the class's own table in the place of `{script, style}`). -/
theorem subclass_option_effects (hd : List PStr) (l : Option Lang) (a : Args) (i : Subst → PStr → PStr) (par : Option PStr) (n : Node) :
    (∀ p, render (mkFormatterCls hd l { a with void_element_close_prefix := p }) i par n
      = (toks par n).flatMap (withVoid (p.getD []) (interpTok (mkFormatterCls hd l a) i))) ∧
    (∀ s, render (mkFormatterCls hd l { a with entity_substitution := s }) i par n
      = (toks par n).flatMap (withSubst s i (mkFormatterCls hd l a).cdata_containing_tags a.empty_attributes_are_booleans
          (interpTok (mkFormatterCls hd l a) i))) ∧
    (∀ cd, render (mkFormatterCls hd l { a with cdata_containing_tags := cd }) i par n
      = (toks par n).flatMap (withCdata (defaultCls hd (l.getD .html) cd) a.entity_substitution i (interpTok (mkFormatterCls hd l a) i))) ∧
    (∀ b, render (mkFormatterCls hd l { a with empty_attributes_are_booleans := b }) i par n
      = (toks par n).flatMap (withEab b a.entity_substitution i (interpTok (mkFormatterCls hd l a) i))) ∧
    (∀ x lv, pretty (mkFormatterCls hd l { a with indent := x }) i lv par n
      = fillInd (normIndent x) (prettyItems (mkFormatterCls hd l a) i lv false par n)) :=
  ⟨fun p => effect_void hd l a p i par n, fun s => effect_subst hd l a s i par n, fun cd => effect_cdata hd l a cd i par n,
   fun b => effect_eab hd l a b i par n, fun x lv => (effect_indent hd l a x i lv par n).1⟩

/-- a subclass of `HTMLFormatter` declaring `{p}`: text in `<p>` verbatim, `<script>` text substituted -/
example : render (mkFormatterCls [[112]] (some .html) { entity_substitution := .xml }) builtin none sample
    = ofS "<p a=\"\" b=\"&amp;\"><br/>x&y<script>1&amp;2</script><!--&--></p>" := by decide +kernel

/-! ## scope of a custom substitution function -/

/-- With a substitution function `f` (any non-`None` value of `entity_substitution`), the output is the output of the
    formatter that substitutes nothing, on the tree in which `f` has been applied to exactly the ordinary strings whose
    parent is not a cdata-containing tag and to the attribute values (a `""` value under `empty_attributes_are_booleans`
    having become `None` first). Comments, CDATA sections, doctypes, declarations, processing instructions and the
    contents of cdata-containing tags are the same in both trees: `f` has no say in how they are written. -/
theorem custom_subst_scope (c : Cfg) (i : Subst → PStr → PStr) (h : c.entity_substitution ≠ .none) (par : Option PStr) (n : Node) :
    render c i par n
      = render (plain c) i par
          (mapScope c.cdata_containing_tags c.empty_attributes_are_booleans (i c.entity_substitution) par n) :=
  render_mapScope c i h par n

/-- what `mapScope` leaves alone and what it touches -/
theorem custom_subst_scope_positions (cd : List PStr) (eab : Bool) (g : PStr → PStr) (par : Option PStr) :
    (∀ k v, k.verbatim = true → mapScope cd eab g par (.str k v) = .str k v) ∧
    (∀ k v p, p ∈ cd → mapScope cd eab g (some p) (.str k v) = .str k v) ∧
    (∀ v, (∀ p, par = some p → p ∉ cd) → mapScope cd eab g par (.str .text v) = .str .text (g v)) ∧
    (∀ k s, s ≠ [] → mapAttr eab g (k, .str s) = (k, .str (g s))) ∧
    (∀ k, mapAttr eab g (k, .none) = (k, .none)) := by
  refine ⟨fun k v hk => by simp [mapScope, hk], fun k v p hp => by simp [mapScope, inCdata, hp], fun v hp => ?_,
    fun k s hs => by simp [mapAttr, hs], fun k => rfl⟩
  have hv : StrKind.verbatim .text = false := by decide
  cases par with
  | none => simp [mapScope, hv, inCdata]
  | some p => simp [mapScope, hv, inCdata, hp p rfl]

example : render (mkHTMLFormatter { entity_substitution := .custom 0 }) bracket none sample
    = ofS "<p a=\"[]\" b=\"[&]\"><br/>[x&y]<script>1&2</script><!--&--></p>" := by decide +kernel
example : render (plain (mkHTMLFormatter { entity_substitution := .custom 0 })) bracket none
      (mapScope [SCRIPT, STYLE] false (bracket (.custom 0)) none sample)
    = ofS "<p a=\"[]\" b=\"[&]\"><br/>[x&y]<script>1&2</script><!--&--></p>" := by decide +kernel
example : [StrKind.comment, .cdata, .doctype, .declaration, .pi, .xmlpi, .preformatted].all (·.verbatim) = true
    ∧ StrKind.text.verbatim = false := by decide

/-- The same for pretty-printing (`prettify`, `decode(indent_level=…)`): the item list — pieces, their stripping, the
    indentation positions — under `f` is the item list of the non-substituting formatter on the mapped tree. -/
theorem custom_subst_scope_pretty (c : Cfg) (i : Subst → PStr → PStr) (h : c.entity_substitution ≠ .none) (lv : Nat)
    (par : Option PStr) (n : Node) :
    pretty c i lv par n
      = pretty (plain c) i lv par
          (mapScope c.cdata_containing_tags c.empty_attributes_are_booleans (i c.entity_substitution) par n) := by
  unfold pretty
  rw [prettyItems_mapScope c i h lv false par n]; rfl

example : pretty (mkHTMLFormatter { entity_substitution := .custom 0 }) bracket 0 none sample
    = ofS "<p a=\"[]\" b=\"[&]\">\n <br/>\n [x&y]\n <script>\n  1&2\n </script>\n <!--&-->\n</p>\n" := by decide +kernel

/-- Attribute values that are not `str` (numbers, bools, path/URL objects, … held raw in a parsed tag's plain dict) are
    stringified BEFORE the substitution: in the token skeleton such a value is indistinguishable from the `str` with the same
    text — same substitution, same quoting, the custom function sees `str(value)` — except that an object whose `str()` is
    empty is never written as a boolean attribute (`obj == ""` is false in `Formatter.attributes`). -/
theorem non_str_attribute_values_are_substituted (k s : PStr) :
    (s ≠ [] → attrToks (k, .other s) = attrToks (k, .str s)) ∧
    attrToks (k, .other []) = [.lit (k ++ [61]), .attrVal []] ∧
    (∀ eab g, mapAttr eab g (k, .other s) = (k, .str (g s))) := by
  refine ⟨fun hs => by simp [attrToks, hs], rfl, fun _ _ => rfl⟩

example : render (mkHTMLFormatter { entity_substitution := .xml, empty_attributes_are_booleans := true }) builtin none
      (.tag [97] [] [([104], .other [47, 38, 60]), ([110], .other [52, 50]), ([101], .other [])] false false [])
    = ofS "<a e=\"\" h=\"/&amp;&lt;\" n=\"42\"></a>" := by decide +kernel
example : render (mkXMLFormatter { entity_substitution := .custom 0 }) bracket none
      (.tag [97] [] [([110], .other [52, 50])] true false []) = ofS "<a n=\"[42]\"/>" := by decide +kernel

/-! ## however the formatter is supplied -/

/-- A `Formatter` object is used as it is by every output method. -/
theorem supplied_object (regH regX : List (Option PStr × Cfg)) (isXml : Bool) (c : Cfg) (i : Subst → PStr → PStr) (m : Mode)
    (par : Option PStr) (n : Node) : entry regH regX isXml (.obj c) i m par n = renderMode c i m par n := rfl

/-- A bare function: every output method renders as with the tree flavour's class constructed on that function alone, so
    every other option has its default (`/`, the flavour's cdata-containing tags, no boolean attributes, one space). -/
theorem supplied_function (isXml : Bool) (s : Subst) (i : Subst → PStr → PStr) (m : Mode) (par : Option PStr) (n : Node) :
    entry BS.Gen.fmtHtmlRegistry BS.Gen.fmtXmlRegistry isXml (.fn s) i m par n
      = renderMode (if isXml then mkXMLFormatter { entity_substitution := s } else mkHTMLFormatter { entity_substitution := s })
          i m par n := rfl

theorem lookup_html (nm : Option PStr) (c : Cfg) (h : lookup BS.Gen.fmtHtmlRegistry nm = .ok c) (i : Subst → PStr → PStr) (m : Mode)
    (par : Option PStr) (n : Node) :
    entry BS.Gen.fmtHtmlRegistry BS.Gen.fmtXmlRegistry false (.name nm) i m par n = renderMode c i m par n := by
  simp [entry, formatterForName, h]

theorem lookup_xml (nm : Option PStr) (c : Cfg) (h : lookup BS.Gen.fmtXmlRegistry nm = .ok c) (i : Subst → PStr → PStr) (m : Mode)
    (par : Option PStr) (n : Node) :
    entry BS.Gen.fmtHtmlRegistry BS.Gen.fmtXmlRegistry true (.name nm) i m par n = renderMode c i m par n := by
  simp [entry, formatterForName, h]

/-- A registered name: every output method, on every tree, renders as with the documented formatter of the tree's flavour
    (live registries); any other name raises `KeyError` from every output method. -/
theorem supplied_name (i : Subst → PStr → PStr) (m : Mode) (par : Option PStr) (n : Node) :
    entry BS.Gen.fmtHtmlRegistry BS.Gen.fmtXmlRegistry false (.name (some N_html)) i m par n
      = renderMode (mkHTMLFormatter { entity_substitution := .html }) i m par n ∧
    entry BS.Gen.fmtHtmlRegistry BS.Gen.fmtXmlRegistry false (.name (some N_html5)) i m par n
      = renderMode (mkHTMLFormatter { entity_substitution := .html5, void_element_close_prefix := some [],
                                      empty_attributes_are_booleans := true }) i m par n ∧
    entry BS.Gen.fmtHtmlRegistry BS.Gen.fmtXmlRegistry false (.name (some N_html5_412)) i m par n
      = renderMode (mkHTMLFormatter { entity_substitution := .html, void_element_close_prefix := some [],
                                      empty_attributes_are_booleans := true }) i m par n ∧
    entry BS.Gen.fmtHtmlRegistry BS.Gen.fmtXmlRegistry false (.name (some N_minimal)) i m par n
      = renderMode (mkHTMLFormatter { entity_substitution := .xml }) i m par n ∧
    entry BS.Gen.fmtHtmlRegistry BS.Gen.fmtXmlRegistry false (.name none) i m par n = renderMode (mkHTMLFormatter {}) i m par n ∧
    entry BS.Gen.fmtHtmlRegistry BS.Gen.fmtXmlRegistry true (.name (some N_html)) i m par n
      = renderMode (mkXMLFormatter { entity_substitution := .html }) i m par n ∧
    entry BS.Gen.fmtHtmlRegistry BS.Gen.fmtXmlRegistry true (.name (some N_minimal)) i m par n
      = renderMode (mkXMLFormatter { entity_substitution := .xml }) i m par n ∧
    entry BS.Gen.fmtHtmlRegistry BS.Gen.fmtXmlRegistry true (.name none) i m par n = renderMode (mkXMLFormatter {}) i m par n ∧
    (∀ isXml nm, nm ∉ (if isXml then [none, some N_html, some N_minimal]
                        else [none, some N_html, some N_html5, some N_html5_412, some N_minimal]) →
      entry BS.Gen.fmtHtmlRegistry BS.Gen.fmtXmlRegistry isXml (.name nm) i m par n = .keyError) := by
  refine ⟨lookup_html _ _ (by decide) .., lookup_html _ _ (by decide) .., lookup_html _ _ (by decide) ..,
    lookup_html _ _ (by decide) .., lookup_html _ _ (by decide) .., lookup_xml _ _ (by decide) ..,
    lookup_xml _ _ (by decide) .., lookup_xml _ _ (by decide) .., ?_⟩
  intro isXml nm hn
  have := ((formatter_for_name_spec isXml).2.2.1 nm).2 hn
  simp [entry, this]

example : entry BS.Gen.fmtHtmlRegistry BS.Gen.fmtXmlRegistry false (.name (some N_html5)) builtin .decode none sample
    = .ok (ofS "<p a b=\"&\"><br>x&y<script>1&2</script><!--&--></p>") := by decide +kernel
example : entry BS.Gen.fmtHtmlRegistry BS.Gen.fmtXmlRegistry true (.name (some N_html5)) builtin .decode none sample = .keyError := by
  decide +kernel
example : entry BS.Gen.fmtHtmlRegistry BS.Gen.fmtXmlRegistry true (.fn .xml) builtin (.pretty 0) none sample
    = .ok (ofS "<p a=\"\" b=\"&amp;\">\n <br/>\n x&amp;y\n <script>\n  1&amp;2\n </script>\n <!--&-->\n</p>\n") := by decide +kernel

/-! ## the flavour is that of the element's current position; earlier output calls leave no trace -/

/-- `_is_xml`: the flavour fixed at construction of the nearest element on the way to the root (the element itself
    included) that has one; if none has, the root's `is_xml` attribute (`False` when the root is not a `BeautifulSoup`). -/
theorem flavour_rule (chain : List (Option Bool)) (rootAttr : Bool) :
    isXmlOf chain rootAttr = ((chain.filterMap id).head?).getD rootAttr := isXmlOf_eq chain rootAttr

example : isXmlOf [none, none, some true, some false] false = true ∧ isXmlOf [none, none] true = true ∧
    isXmlOf [some false, some true] true = false ∧ isXmlOf [none] false = false := by decide

/-- Output calls do not change the documents: after any session the documents are those produced by the edits alone. -/
theorem output_calls_leave_no_trace (i : Subst → PStr → PStr) (docs : List Doc) (ops : List HOp) :
    (runSession BS.Gen.fmtHtmlRegistry BS.Gen.fmtXmlRegistry i docs ops).1
      = (runSession BS.Gen.fmtHtmlRegistry BS.Gen.fmtXmlRegistry i docs (ops.filter HOp.isEdit)).1 :=
  runSession_docs _ _ i ops docs

/-- Rendering depends only on the current trees and the configuration, not on what was rendered before: an output call
    at the end of any session returns what the same call returns on the documents produced by the session's edits alone —
    with the flavour (formatter class and registry for names and bare functions) found from the element's position in
    those documents. -/
theorem render_depends_on_current_tree_only (i : Subst → PStr → PStr) (docs : List Doc) (ops : List HOp) (d : Nat)
    (p : List Nat) (a : FmtArg) (m : Mode) :
    (runSession BS.Gen.fmtHtmlRegistry BS.Gen.fmtXmlRegistry i docs (ops ++ [.render d p a m])).2.getLast?
      = some (match ((runSession BS.Gen.fmtHtmlRegistry BS.Gen.fmtXmlRegistry i docs (ops.filter HOp.isEdit)).1)[d]? with
              | some doc => doc.renderAt BS.Gen.fmtHtmlRegistry BS.Gen.fmtXmlRegistry p a i m
              | none => .badReceiver) := by
  rw [runSession_last, runSession_docs]; rfl

/-- a hand-made `<script>` with the text `1&2` (no flavour of its own) -/
def handScript : XNode := .tag none SCRIPT [] [] false false [.str none .text [49, 38, 50]]

/-- under an HTML soup its text is verbatim with "minimal"; moved under an XML-flavoured root (`Tag("root", is_xml=True)`),
    and rendered from the script element itself, it is substituted — whatever was rendered while it sat in the HTML tree -/
example :
    let html : Doc := ⟨.tag (some false) [100] [] [] false false [handScript], false⟩
    let xml : Doc := ⟨.tag (some true) [114] [] [] false false [handScript], false⟩
    let arg := FmtArg.name (some N_minimal)
    (runSession BS.Gen.fmtHtmlRegistry BS.Gen.fmtXmlRegistry builtin [html]
        [.render 0 [0] arg .decode, .edit (fun _ => [xml]), .render 0 [0] arg .decode]).2
      = [.ok (ofS "<script>1&2</script>"), .ok (ofS "<script>1&amp;2</script>")] ∧
    (runSession BS.Gen.fmtHtmlRegistry BS.Gen.fmtXmlRegistry builtin [html]
        [.edit (fun _ => [xml]), .render 0 [0] arg .decode]).2 = [.ok (ofS "<script>1&amp;2</script>")] := by decide +kernel

/-- **A copy renders like its original.** `copy.copy`/`copy.deepcopy` of a tag (`copy_self` records `is_xml=self._is_xml`
    in every copied tag): the detached copy, rendered from its root with any `formatter=` argument through any output
    method, gives what the original gives where it stands — in particular a flavour-less `Tag(name=…)` living in an XML
    tree is copied as XML. -/
theorem copy_renders_like_original (i : Subst → PStr → PStr) (d : Doc) (p : List Nat) (n : XNode) (par : Option PStr)
    (chain : List (Option Bool)) (hd : descend d.root p [] none = some (n, par, chain)) (ht : n.name?.isSome = true)
    (arg : FmtArg) (m : Mode) :
    Doc.renderAt BS.Gen.fmtHtmlRegistry BS.Gen.fmtXmlRegistry ⟨n.copyWith (isXmlOf chain.tail d.rootAttr), false⟩ [] arg i m
      = Doc.renderAt BS.Gen.fmtHtmlRegistry BS.Gen.fmtXmlRegistry d p arg i m :=
  copy_renderAt _ _ i d p n par chain hd ht arg m

/-- Inside the copy, and wherever the copy is put afterwards (`inh'`), every element has the flavour its original had. -/
theorem copy_keeps_flavour_everywhere (q : List Nat) (n : XNode) (inh inh' : Bool) (hs : n.stringsPlain = true)
    (ht : n.name?.isSome = true) : flavAt inh' (n.copyWith inh) q = flavAt inh n q :=
  flavAt_copy q n inh inh' hs (Or.inl ht)

/-- `flavAt` is what the walk computes: the chain `descend` collects on the way to an element resolves to it. -/
theorem flavour_is_positional (r : Bool) (q : List Nat) (n : XNode) (e : XNode) (par : Option PStr)
    (chain : List (Option Bool)) (h : descend n q [] none = some (e, par, chain)) : isXmlOf chain r = flavAt r n q := by
  have := descend_flavour r q n [] none e par chain h
  simpa [isXmlOf] using this

/-- the hand-made `<script>1&2</script>` under an XML-flavoured root, copied: with "minimal" the copy substitutes like the
    original (XML has no cdata-containing tags); the shipped-then-seeded variant `is_xml=self.known_xml` would give `1&2` -/
example :
    let xml : Doc := ⟨.tag (some true) [114] [] [] false false [handScript], false⟩
    let arg := FmtArg.name (some N_minimal)
    Doc.renderAt BS.Gen.fmtHtmlRegistry BS.Gen.fmtXmlRegistry ⟨handScript.copyWith true, false⟩ [] arg builtin .decode
      = .ok (ofS "<script>1&amp;2</script>") ∧
    Doc.renderAt BS.Gen.fmtHtmlRegistry BS.Gen.fmtXmlRegistry xml [0] arg builtin .decode = .ok (ofS "<script>1&amp;2</script>") ∧
    Doc.renderAt BS.Gen.fmtHtmlRegistry BS.Gen.fmtXmlRegistry ⟨handScript, false⟩ [] arg builtin .decode
      = .ok (ofS "<script>1&2</script>") := by decide +kernel
example := copy_renders_like_original builtin ⟨.tag (some true) [114] [] [] false false [handScript], false⟩ [0] handScript
  (some [114]) [none, some true] rfl (by decide) (.fn (.custom 0)) (.pretty 0)
example := copy_keeps_flavour_everywhere [0] handScript true false (by decide) (by decide)

/-! ## determinism -/

/-- Attributes come out in key order whatever the insertion order (keys of a dict are distinct): same output, plain and
    pretty. -/
theorem attrs_sorted (c : Cfg) (i : Subst → PStr → PStr) (par : Option PStr) (n p : PStr) (as₁ as₂ : List (PStr × AttrVal))
    (cbe pre : Bool) (ks : List Node) (hp : as₁.Perm as₂) (hd : (as₁.map (·.1)).Nodup) :
    render c i par (.tag n p as₁ cbe pre ks) = render c i par (.tag n p as₂ cbe pre ks) ∧
    ∀ lv, pretty c i lv par (.tag n p as₁ cbe pre ks) = pretty c i lv par (.tag n p as₂ cbe pre ks) := by
  constructor
  · simp only [render, formatTag_perm c i n p as₁ as₂ _ _ hp hd]
  · intro lv; simp only [pretty, prettyItems, formatTag_perm c i n p as₁ as₂ _ _ hp hd]

/-- At any depth: two trees with the same canonical form (every tag's attributes sorted by key) render the same; and
    permuting a tag's attributes does not change its canonical form. -/
theorem attrs_sorted_deep (c : Cfg) (i : Subst → PStr → PStr) (par : Option PStr) (t₁ t₂ : Node) (h : canon t₁ = canon t₂) :
    render c i par t₁ = render c i par t₂ ∧ ∀ lv, pretty c i lv par t₁ = pretty c i lv par t₂ := by
  constructor
  · rw [← render_canon c i par t₁, ← render_canon c i par t₂, h]
  · intro lv; unfold pretty; rw [← prettyItems_canon c i lv false par t₁, ← prettyItems_canon c i lv false par t₂, h]

/-- permuting a tag's attributes (distinct keys) does not change its canonical form -/
theorem canon_perm (n p : PStr) (as₁ as₂ : List (PStr × AttrVal)) (cbe pre : Bool) (ks : List Node)
    (hp : as₁.Perm as₂) (hd : (as₁.map (·.1)).Nodup) :
    canon (.tag n p as₁ cbe pre ks) = canon (.tag n p as₂ cbe pre ks) := by
  simp only [canon, sort_perm as₁ as₂ hp hd]

example : render (mkHTMLFormatter {}) builtin none (.tag [112] [] [([98], .str [49]), ([97], .none), ([97, 97], .list [[120], [121]])] false false [])
    = ofS "<p a aa=\"x y\" b=\"1\"></p>" := by decide +kernel

/-- Every particle of the live entity regex has the shape the model can express: a literal key, optionally followed by a
    negative look-ahead for one code point out of a set (`(?![xy])`). -/
theorem regex_particles_regular : BS.Gen.htmlAltsIrregular = [] := by decide

/-- The alternatives of the live entity regex (parsed back from `CHARACTER_TO_HTML_ENTITY_WITH_AMPERSAND_RE.pattern`) are
    mutually exclusive at every position: keys are distinct, and a key that starts a longer key carries a negative
    look-ahead for the longer key's next code point. Re-proved from the live table on every run. -/
theorem htmlAlts_exclusive : Exclusive BS.Gen.htmlAlts :=
  exclusiveChk_sound _ (by decide +kernel)

/-- So the order in which `"|".join(set)` happened to list them (hash seed) is irrelevant to `substitute_html`. -/
theorem regex_order_irrelevant (alts' : List Alt) (hp : alts'.Perm BS.Gen.htmlAlts) (s : PStr) :
    reSub alts' s = reSub BS.Gen.htmlAlts s := reSub_perm _ _ htmlAlts_exclusive hp s

/-- the interpretation in which `substitute_html` is `re.sub` over the given listing of the alternatives -/
def withHtml (alts : List Alt) (i : Subst → PStr → PStr) : Subst → PStr → PStr :=
  fun s => if s = .html then reSub alts else i s

/-- Output is a function of the tree alone: the three places where a `set`/`dict` iteration order could enter — the listing
    of the regex alternatives, the listing of `cdata_containing_tags` (only membership is used) and the insertion order of
    a tag's attributes — do not influence it. (`preserve_whitespace_tags`, `HTML_ENTITY_TO_CHARACTER` etc. are only ever
    tested for membership / indexed by key.) -/
theorem hash_seed_independent (alts' : List Alt) (hp : alts'.Perm BS.Gen.htmlAlts) (c : Cfg) (cd' : List PStr)
    (hcd : cd'.Perm c.cdata_containing_tags) (i : Subst → PStr → PStr) (par : Option PStr) (n p : PStr)
    (as₁ as₂ : List (PStr × AttrVal)) (cbe pre : Bool) (ks : List Node) (hpa : as₁.Perm as₂) (hd : (as₁.map (·.1)).Nodup) :
    render { c with cdata_containing_tags := cd' } (withHtml alts' i) par (.tag n p as₁ cbe pre ks)
      = render c (withHtml BS.Gen.htmlAlts i) par (.tag n p as₂ cbe pre ks) := by
  rw [render_cdata_set c cd' (fun x => hcd.mem_iff) _ par]
  rw [render_interp_congr c (withHtml alts' i) (withHtml BS.Gen.htmlAlts i) _ par]
  · exact (attrs_sorted c _ par n p as₁ as₂ cbe pre ks hpa hd).1
  · intro x
    unfold withHtml
    split
    · exact regex_order_irrelevant alts' hp x
    · rfl

example : reSub BS.Gen.htmlAlts [60, 233, 38, 8807, 824, 8807, 120] = ofS "&lt;&eacute;&amp;&ngeqq;&geqq;x" := by decide +kernel
example : reSub BS.Gen.htmlAlts.reverse [60, 233, 38, 8807, 824, 8807, 120] = ofS "&lt;&eacute;&amp;&ngeqq;&geqq;x" := by decide +kernel
/-- without the look-ahead the order would matter: a two-alternative table that is not exclusive -/
example : reSub [⟨[8807], [], [65]⟩, ⟨[8807, 824], [], [66]⟩] [8807, 824] ≠ reSub [⟨[8807, 824], [], [66]⟩, ⟨[8807], [], [65]⟩] [8807, 824] := by
  decide

/-! ## from the parse to the bytes: output is a function of the tree and the configuration

    `RawNode` is what html.parser reports (names, `(key, value)` pairs in source order, strings); `build b` is the element
    `handle_starttag` + `Tag.__init__` make under the builder configuration `b`. -/

/-- The set- and dict-typed configuration of a builder (`empty_element_tags`, `preserve_whitespace_tags`,
    `cdata_list_attributes` and the sets in it) is consulted only through membership and key lookup: two configurations that
    denote the same sets and the same mapping build literally the same tree from every parse. -/
theorem builder_sets_are_sets (b b' : BuilderCfg) (h : BuilderEquiv b b') (t : RawNode) : build b t = build b' t :=
  build_equiv b b' h t

/-- In particular any other listing order of those sets and of the dict's entries (what another hash seed, or another way
    of writing the same literal, gives). -/
theorem builder_listing_order_irrelevant (b : BuilderCfg) (e' : Option (List PStr)) (p' : List PStr)
    (c' : List (PStr × List PStr))
    (he : match b.emptyElementTags, e' with | none, none => True | some s, some s' => s'.Perm s | _, _ => False)
    (hp : p'.Perm b.preserveWhitespaceTags) (hc : c'.Perm b.cdataListAttributes)
    (hn : (b.cdataListAttributes.map (·.1)).Nodup) (t : RawNode) :
    build { b with emptyElementTags := e', preserveWhitespaceTags := p', cdataListAttributes := c' } t = build b t :=
  build_equiv _ _ (builderEquiv_of_perm b e' p' c' he hp hc hn) t

/-- the HTML builder's configuration as far as the examples need it: void `br`, preserved `pre`, `class` multi-valued -/
def htmlish : BuilderCfg :=
  { emptyElementTags := some [[98, 114], [104, 114]], preserveWhitespaceTags := [[112, 114, 101], [116, 101, 120, 116, 97, 114, 101, 97]],
    cdataListAttributes := [([42], [[99, 108, 97, 115, 115]]), ([116, 100], [[104, 101, 97, 100, 101, 114, 115]])], onDuplicate := .replace }

/-- the same configuration written in another order -/
def htmlish' : BuilderCfg :=
  { htmlish with emptyElementTags := some [[104, 114], [98, 114]], preserveWhitespaceTags := htmlish.preserveWhitespaceTags, cdataListAttributes := htmlish.cdataListAttributes.reverse }

example : build htmlish'
      (.tag [98, 114] [([99, 108, 97, 115, 115], some [97, 32, 32, 98])] [])
    = build htmlish (.tag [98, 114] [([99, 108, 97, 115, 115], some [97, 32, 32, 98])] []) :=
  builder_listing_order_irrelevant htmlish _ _ _ (List.Perm.swap _ _ _) (List.Perm.refl _) (List.reverse_perm _) (by decide) _

example : render (mkHTMLFormatter {}) builtin none
      (build htmlish (.tag [98, 114] [([99, 108, 97, 115, 115], some [97, 32, 32, 98]), ([105, 100], none), ([105, 100], some [120])] []))
    = ofS "<br class=\"a b\" id=\"x\"/>" := by decide +kernel

/-- A start tag that does not repeat a key: the attribute dict is the source list (a missing value read as `""`), in source
    order, whatever `on_duplicate_attribute` says. -/
theorem duplicate_free_start_tag (od : OnDup) (as : List (PStr × Option PStr)) (h : (as.map (·.1)).Nodup) :
    attrDict od as = as.map (fun e => (e.1, e.2.getD [])) := attrDict_nodup od as h

example : attrDict .replace [([97], some [49]), ([98], none), ([97], some [50])] = [([97], [50]), ([98], [])] ∧
    attrDict .ignore [([97], some [49]), ([98], none), ([97], some [50])] = [([97], [49]), ([98], [])] := by decide

/-- Attribute order from the source to the output: two parses that differ only in the order in which start tags list their
    (distinct) attributes — at any depth — give the same output from every output method, under every builder configuration
    and formatter. (With a repeated key the order is content: it decides which value survives.) -/
theorem source_attr_order_irrelevant (b : BuilderCfg) (c : Cfg) (i : Subst → PStr → PStr) (m : Mode) (par : Option PStr)
    (t t' : RawNode) (h : SameUpToAttrOrder t t') :
    renderMode c i m par (build b t) = renderMode c i m par (build b t') := by
  rw [← renderMode_canon c i m par (build b t), ← renderMode_canon c i m par (build b t'), canon_build_same b t t' h]

example : SameUpToAttrOrder
    (.tag [112] [([98], some [49]), ([97], none)] [.tag [105] [([120], none), ([121], none)] [], .str .text [116]])
    (.tag [112] [([97], none), ([98], some [49])] [.tag [105] [([121], none), ([120], none)] [], .str .text [116]]) :=
  .tag _ _ _ _ _ (List.Perm.swap _ _ _) (by decide)
    (.cons _ _ _ _ (.tag _ _ _ _ _ (List.Perm.swap _ _ _) (by decide) .nil) (.cons _ _ _ _ (.str _ _) .nil))

/-- **Output is a function of the tree and the configuration.** For every parse, every output method and every
    interpretation of the user functions: the listing order of the entity regex's alternatives (`"|".join(set)`), of the
    formatter's `cdata_containing_tags`, of the builder's sets and dict, and of the attributes within start tags does not
    reach the output. Everything else the output is computed from is an argument of `renderMode`/`build`. -/
theorem output_is_function_of_tree_and_configuration
    (alts' : List Alt) (hp : alts'.Perm BS.Gen.htmlAlts)
    (b b' : BuilderCfg) (hb : BuilderEquiv b b')
    (c : Cfg) (cd' : List PStr) (hcd : SetEq cd' c.cdata_containing_tags)
    (i : Subst → PStr → PStr) (m : Mode) (par : Option PStr) (t t' : RawNode) (ht : SameUpToAttrOrder t t') :
    renderMode { c with cdata_containing_tags := cd' } (withHtml alts' i) m par (build b t)
      = renderMode c (withHtml BS.Gen.htmlAlts i) m par (build b' t') := by
  have hf : FmtEquiv { c with cdata_containing_tags := cd' } (withHtml alts' i) c (withHtml BS.Gen.htmlAlts i) :=
    { es := rfl, vecp := rfl, eab := rfl, indent := rfl, cdata := hcd,
      interp := fun x => by
        unfold withHtml
        split
        · exact regex_order_irrelevant alts' hp x
        · rfl }
  rw [renderMode_fmtEquiv hf, build_equiv b b' hb t, source_attr_order_irrelevant b' c _ m par t t' ht]

example : renderMode { mkHTMLFormatter { entity_substitution := .html } with cdata_containing_tags := [STYLE, SCRIPT] }
      (withHtml BS.Gen.htmlAlts.reverse builtin) (.pretty 0) none
      (build { htmlish with preserveWhitespaceTags := htmlish.preserveWhitespaceTags.reverse }
        (.tag [112] [([98], some [233]), ([97], none)] [.tag [98, 114] [] [], .str .text [8807, 824]]))
    = .ok (ofS "<p a=\"\" b=\"&eacute;\">\n <br/>\n &ngeqq;\n</p>\n") := by decide +kernel

/-! ## how the entity regex is assembled (`EntitySubstitution._populate_class_variables`)

    `populateAlts items codepoint2name` mirrors the construction from the two stdlib tables; the sets the code uses
    (`short_entities`, the values of `long_entities_by_first_character`, `particles`) are kept in one particular order there. -/

/-- **For every input table** in which no long key is a proper prefix of another and none starts with `&`, the
    alternatives the construction produces are mutually exclusive at every position: distinct keys, and every one-code-point
    key that starts longer keys carries the look-ahead for each of their second code points. -/
theorem populate_exclusive (items : List (PStr × PStr)) (c2n : List (Nat × PStr)) (h : TableOK items) :
    Exclusive (populateAlts items c2n) := populateAlts_exclusive items c2n h

/-- The whole `html.entities.html5` table of the running interpreter satisfies the hypothesis. -/
theorem html5_table_ok : TableOK BS.Gen.c15Html5Items := tableOKChk_sound _ (by decide +kernel)

/-- Hence, for every such table, `substitute_html` does not depend on the order in which the sets were iterated: any
    relisting of the code points inside the look-ahead classes (`f`) followed by any relisting of the alternatives gives
    the same function. -/
theorem populate_order_irrelevant (items : List (PStr × PStr)) (c2n : List (Nat × PStr)) (h : TableOK items)
    (f : Alt → Alt) (hk : ∀ a, (f a).key = a.key) (hr : ∀ a, (f a).repl = a.repl)
    (hn : ∀ a x, x ∈ (f a).notNext ↔ x ∈ a.notNext)
    (alts' : List Alt) (hp : alts'.Perm ((populateAlts items c2n).map f)) (s : PStr) :
    reSub alts' s = reSub (populateAlts items c2n) s := by
  rw [reSub_perm _ alts' (exclusive_map _ f hk hn (populate_exclusive items c2n h)) hp s,
    reSub_map_congr _ f hk hr hn s]

/-- for the live tables -/
theorem populate_order_irrelevant_live (f : Alt → Alt) (hk : ∀ a, (f a).key = a.key) (hr : ∀ a, (f a).repl = a.repl)
    (hn : ∀ a x, x ∈ (f a).notNext ↔ x ∈ a.notNext)
    (alts' : List Alt) (hp : alts'.Perm ((populateAlts BS.Gen.c15Html5Items BS.Gen.c15Codepoint2name).map f)) (s : PStr) :
    reSub alts' s = reSub (populateAlts BS.Gen.c15Html5Items BS.Gen.c15Codepoint2name) s :=
  populate_order_irrelevant _ _ html5_table_ok f hk hr hn alts' hp s

/-- a five-entry table: `≧` starts `≧̸`, so it gets the look-ahead; `lt` keeps its name; `&` is always there -/
def tinyTable : List (PStr × PStr) :=
  [([71, 69, 59], [8807]), ([97, 109, 112, 59], [38]), ([101, 97, 99, 117, 116, 101, 59], [233]), ([108, 116, 59], [60]),
   ([110, 103, 69, 59], [8807, 824])]

example : populateAlts tinyTable [] =
    [⟨[8807], [824], ofS "&GE;"⟩, ⟨[233], [], ofS "&eacute;"⟩, ⟨[60], [], ofS "&lt;"⟩, ⟨[8807, 824], [], ofS "&ngE;"⟩,
     ⟨[38], [], ofS "&amp;"⟩] := by decide +kernel
example : TableOK tinyTable := tableOKChk_sound _ (by decide)
example : reSub (populateAlts tinyTable []).reverse [8807, 824, 8807, 38] = ofS "&ngE;&GE;&amp;" := by decide +kernel
/-- the hypothesis is needed: with a long key that is a proper prefix of another the construction has no look-ahead for it -/
example : ¬ TableOK [([97, 59], [8807, 824]), ([98, 59], [8807, 824, 824])] := by
  intro h; have := h.1 [8807, 824] (by decide) [8807, 824, 824] (by decide) (by decide); exact absurd this (by decide)

/-! ## `Formatter` subclasses that override `attributes()` -/

/-- The base class is the instance "sort, with `empty_attributes_are_booleans` applied" of the hook. -/
theorem attributes_hook_default (c : Cfg) (i : Subst → PStr → PStr) (par : Option PStr) (n : Node) :
    renderHook (attributes c) c i par n = render c i par n := renderHook_default c i par n

/-- Whatever `attributes()` a subclass defines, the output depends on a tag's attribute dict only through what that
    method returns for it: trees whose attribute lists the hook cannot tell apart render the same. -/
theorem attributes_hook_decides (h : AttrHook) (c : Cfg) (i : Subst → PStr → PStr) (par : Option PStr) (t t' : Node)
    (hs : SameUpToHook h t t') : renderHook h c i par t = renderHook h c i par t' := renderHook_congr h c i par t t' hs

/-- So a subclass keeps the "whatever the insertion order" guarantee exactly when its `attributes()` does not look at the
    order; the base implementation is one such (it sorts), … -/
theorem base_attributes_ignore_insertion_order (c : Cfg) (as₁ as₂ : List (PStr × AttrVal)) (hp : as₁.Perm as₂)
    (hd : (as₁.map (·.1)).Nodup) : attributes c as₁ = attributes c as₂ := attributes_perm c as₁ as₂ hp hd

/-- … the documentation's `UnsortedAttributes` (yield the items as they come) is not, and neither
    `empty_attributes_are_booleans` nor sorting is applied for it. -/
example :
    renderHook id (mkHTMLFormatter { empty_attributes_are_booleans := true }) builtin none (.tag [112] [] [([98], .str [49]), ([97], .str [])] false false [])
      = ofS "<p b=\"1\" a=\"\"></p>" ∧
    renderHook id (mkHTMLFormatter { empty_attributes_are_booleans := true }) builtin none (.tag [112] [] [([97], .str []), ([98], .str [49])] false false [])
      = ofS "<p a=\"\" b=\"1\"></p>" ∧
    render (mkHTMLFormatter { empty_attributes_are_booleans := true }) builtin none (.tag [112] [] [([98], .str [49]), ([97], .str [])] false false [])
      = ofS "<p a b=\"1\"></p>" := by decide +kernel

example : SameUpToHook (attributes (mkHTMLFormatter {}))
    (.tag [112] [] [([98], .str [49]), ([97], .none)] false false []) (.tag [112] [] [([97], .none), ([98], .str [49])] false false []) :=
  .tag _ _ _ _ _ _ _ _ (by decide) .nil

/-! ## the hypotheses of the theorems above are satisfiable (instantiations on concrete, non-trivial data) -/

def attrsBA : List (PStr × AttrVal) := [([98], .str [49]), ([97], .none), ([99], .list [[120], [121]])]
def attrsAB : List (PStr × AttrVal) := [([97], .none), ([98], .str [49]), ([99], .list [[120], [121]])]

example := attrs_sorted (mkHTMLFormatter {}) builtin none [112] [] attrsBA attrsAB false false [] (List.Perm.swap _ _ _) (by decide)
example := canon_perm [112] [] attrsBA attrsAB false false [sample] (List.Perm.swap _ _ _) (by decide)
example := attrs_sorted_deep (mkXMLFormatter {}) builtin none _ _ (canon_perm [112] [] attrsBA attrsAB false false [sample] (List.Perm.swap _ _ _) (by decide))
example := base_attributes_ignore_insertion_order (mkHTMLFormatter {}) attrsBA attrsAB (List.Perm.swap _ _ _) (by decide)
example := regex_order_irrelevant BS.Gen.htmlAlts.reverse (List.reverse_perm _) [8807, 824]
example := hash_seed_independent BS.Gen.htmlAlts.reverse (List.reverse_perm _) (mkHTMLFormatter { entity_substitution := .html })
  [STYLE, SCRIPT] (List.Perm.swap _ _ _) builtin none [112] [] attrsBA attrsAB false false [sample] (List.Perm.swap _ _ _) (by decide)
example := custom_subst_scope (mkXMLFormatter { entity_substitution := .custom 3 }) bracket (by decide) none sample
example := custom_subst_scope_pretty (mkXMLFormatter { entity_substitution := .custom 3 }) bracket (by decide) 2 none sample
example := lookup_html (some N_minimal) _ (by decide : lookup BS.Gen.fmtHtmlRegistry (some N_minimal) = .ok (mkHTMLFormatter { entity_substitution := .xml })) builtin .decode none sample
example := lookup_xml none _ (by decide : lookup BS.Gen.fmtXmlRegistry none = .ok (mkXMLFormatter {})) builtin (.pretty 1) none sample
example := duplicate_free_start_tag .ignore [([98], some [49]), ([97], none)] (by decide)

/-- `htmlish'` lists the same sets and the same dict in another order -/
theorem htmlish_equiv : BuilderEquiv htmlish' htmlish :=
  builderEquiv_of_perm htmlish _ _ _ (List.Perm.swap _ _ _) (List.Perm.refl _) (List.reverse_perm _) (by decide)

def rawBA : RawNode := .tag [112] [([98], some [49]), ([97], none)] [.tag [98, 114] [([99, 108, 97, 115, 115], some [120, 32, 121])] [], .str .text [8807, 824]]
def rawAB : RawNode := .tag [112] [([97], none), ([98], some [49])] [.tag [98, 114] [([99, 108, 97, 115, 115], some [120, 32, 121])] [], .str .text [8807, 824]]

/-- two parses of `<p …><br class="x y">≧̸</p>` that list the attributes of `p` in different orders -/
theorem rawBA_AB : SameUpToAttrOrder rawBA rawAB :=
  .tag _ _ _ _ _ (List.Perm.swap _ _ _) (by decide)
    (.cons _ _ _ _ (.tag _ _ _ _ _ (List.Perm.refl _) (by decide) .nil) (.cons _ _ _ _ (.str _ _) .nil))

example := builder_sets_are_sets htmlish' htmlish htmlish_equiv rawBA
example := source_attr_order_irrelevant htmlish (mkHTMLFormatter { entity_substitution := .html }) builtin (.pretty 0) none rawBA rawAB rawBA_AB
example := output_is_function_of_tree_and_configuration BS.Gen.htmlAlts.reverse (List.reverse_perm _) htmlish' htmlish htmlish_equiv
  (mkHTMLFormatter { entity_substitution := .html }) [STYLE, SCRIPT] (SetEq.of_perm (List.Perm.swap _ _ _)) builtin (.pretty 0) none rawBA rawAB rawBA_AB

/-- relisting the look-ahead classes (here: reversed) and the alternatives (here: reversed) of the live construction -/
example := populate_order_irrelevant_live (fun a => { a with notNext := a.notNext.reverse }) (fun _ => rfl) (fun _ => rfl)
  (fun _ _ => List.mem_reverse) _ (List.reverse_perm _) [8810, 824, 8810, 8402]
example := populate_exclusive tinyTable [] (tableOKChk_sound _ (by decide))

/-! ## trees with user-hidden tags (`tag.hidden = True`) -/

/-- On a tree without hidden tags the model with hidden tags is the model above, for every output method. -/
theorem hidden_free_refinement (c : Cfg) (i : Subst → PStr → PStr) (m : Mode) (par : Option PStr) (n : Node) :
    renderModeH c i m par (HNode.ofNode n) = renderMode c i m par n := renderModeH_ofNode c i m par n

/-- A hidden tag writes nothing of its own; its contents are written as if they stood one level deeper (string-literal mode
    switched on if the hidden tag preserves whitespace); and what follows it is written at the level it would have without
    the hidden tag — the hidden tag opens and closes exactly one level. -/
theorem hidden_tag_is_transparent (c : Cfg) (i : Subst → PStr → PStr) (lv : Nat) (lit : Bool) (par : Option PStr)
    (n p : PStr) (as : List (PStr × AttrVal)) (cbe pre : Bool) (k : HNode) (ks rest : List HNode) :
    renderHL c i par (.tag true n p as cbe pre (k :: ks) :: rest) = renderHL c i (some n) (k :: ks) ++ renderHL c i par rest ∧
    prettyItemsHL c i lv lit par (.tag true n p as cbe pre (k :: ks) :: rest)
      = prettyItemsHL c i (lv + 1) (lit || pre) (some n) (k :: ks) ++ prettyItemsHL c i lv lit par rest ∧
    prettyItemsHL c i lv lit par (.tag true n p as true pre [] :: rest) = prettyItemsHL c i lv lit par rest := by
  refine ⟨?_, ?_, ?_⟩ <;> simp [renderHL, renderH, prettyItemsHL, prettyItemsH]

/-- No line of a pretty-printed element is indented less deep than the level the element was printed at, whatever hidden
    tags it contains (the level counter never falls below its starting value). -/
theorem indentation_survives_hidden_tags (c : Cfg) (i : Subst → PStr → PStr) (lv : Nat) (lit : Bool) (par : Option PStr)
    (n : HNode) : ∀ d ∈ indDepths (prettyItemsH c i lv lit par n), lv ≤ d := indDepths_ge c i lv lit par n

/-- `<div><span hidden><b>x</b></span><i>y</i></div>`, the span hidden, unit `--`: `<i>` stays at depth 1 -/
example :
    renderModeH (mkHTMLFormatter { indent := .str [45, 45] }) builtin (.pretty 0) none
      (.tag false [100, 105, 118] [] [] false false
        [.tag true [115] [] [([97], .str [49])] false false [.tag false [98] [] [] false false [.str .text [120]]],
         .tag false [105] [] [] false false [.str .text [121]]])
    = .ok (ofS "<div>\n----<b>\n------x\n----</b>\n--<i>\n----y\n--</i>\n</div>\n") := by decide +kernel

end BS.Props.C15
