import BSModel.Model.ParseOnly
/-! # C16 — parse_only keeps exactly the outermost matching elements (first instalment: the two local rules;
    the induction over documents is in progress and replaces this file) -/
namespace BS.Props.C16
open BS.Builder BS.ParseOnly

/-- while no kept element is open, a start tag the filter refuses creates nothing and opens nothing -/
theorem rejected_start_pushes_nothing (cfg : Cfg) (f : Filt) (root : Frame) (n : Name) (p : Option Name)
    (h : f.allowTag n p = false) : (fStep cfg f ⟨[root], []⟩ (.start n p)).stack = [root] := by
  simp [fStep, fFlush, h]

/-- below a kept element the filter is never consulted: every start tag opens an element -/
theorem deep_start_always_pushed (cfg : Cfg) (f : Filt) (top below : Frame) (rest : List Frame) (n : Name)
    (p : Option Name) : (fStep cfg f ⟨top :: below :: rest, []⟩ (.start n p)).stack = ⟨n, p, []⟩ :: top :: below :: rest := by
  simp [fStep, fFlush]

/-- a string that would become a child of the BeautifulSoup object itself is dropped unless the filter allows it -/
theorem top_level_string_dropped (cfg : Cfg) (f : Filt) (root : Frame) (b : PStr) (bs : List PStr) (cls : Option Cls)
    (h : ∀ s, f.allowString s = false) : fFlush cfg f ⟨[root], b :: bs⟩ cls = ⟨[root], []⟩ := by
  simp [fFlush, h]

end BS.Props.C16
