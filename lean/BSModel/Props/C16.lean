import BSModel.Proofs.ParseOnlyCor
import BSModel.Model.Adapter
import BSModel.Proofs.StrainerParse
/-! # C16 — `parse_only` keeps exactly the outermost matching elements

Property theorems only.  `fFlush`/`fStep`/`fRun`/`fBuild` (Model/ParseOnly.lean) are C03's documented fold with
the two consultations of `parse_only` of `bs4/__init__.py`: `handle_starttag` asks `allow_tag_creation` only
while `len(tagStack) <= 1`, `endData` asks `allow_string_creation` only for a string that would become a direct
child of the BeautifulSoup object.  The filter `f : Filt` is two arbitrary predicates.

The theorems hold for **every** configuration `cfg` with `CfgOK cfg` (the BeautifulSoup object's own name is
neither whitespace-preserving nor a string container), **every** filter and **every** well-formed document
`ds : List Doc` (`eventsL ds` = its builder events) none of whose elements is named like the BeautifulSoup
object (`noRootL`).

Vocabulary (Proofs/ParseOnly*.lean, Proofs/BuilderBal.lean): `absorb cfg ctx b ds` = C03's normal form of a
forest under the enclosing names `ctx` with pending chunks `b` (children appended, text left pending);
`txtN` = what one flush appends; `txtRoot` = what a flush appends at the root under the filter;
`outer`/`outer1` = the root-mode result of a forest / a node; `outermost` = the outermost matching elements;
`normElem` = a kept element with its whole subtree in normal form; `textRuns` = the text runs of a document. -/
namespace BS.Props.C16
open BS BS.Builder BS.ParseOnly

/-! ## sample configuration, filters and documents for the non-vacuity examples
names are code-point lists: `[0]` = the root name, `[1]` whitespace-preserving (`pre`), `[2]` a string container of
class 7, `[3]` plays `a`, `[4]` plays `b` -/

def cfgX : Cfg :=
  { preserve := fun n => n == [1],
    container := fun n => if n == [2] then some 7 else none,
    asciiSpaces := [9, 10, 12, 13, 32],
    rootName := [0] }

/-- keep the elements called `[3]`, refuse every string (what a name/attribute `SoupStrainer` does) -/
def fTag : Filt := { allowTag := fun n _ => n == [3], allowString := fun _ => false }

/-- refuse every tag, keep the strings that contain the code point 65 (a string-only `SoupStrainer`) -/
def fStr : Filt := { allowTag := fun _ _ => false, allowString := fun s => s.contains 65 }

/-- both kinds refused -/
def fNone : Filt := { allowTag := fun _ _ => false, allowString := fun _ => false }

/-- `<b>x<a id=8>A<a id=9></a></a>y</b>z<a></a>` -/
def docX : List Doc :=
  [.elem [4] none [.text 0 [120], .elem [3] (some [8]) [.text 0 [65], .elem [3] (some [9]) []], .text 0 [121]],
   .text 0 [122], .elem [3] none []]

example : CfgOK cfgX := by decide
example : noRootL cfgX docX = true := by decide

/-! ## 1: deep mode — while a kept element is open the filter is not consulted -/

/-- With at least two frames open (a kept element and the BeautifulSoup object, possibly more) the filtered
    machine runs a balanced block exactly as the plain machine of C03 does. -/
theorem deep_mode (cfg : Cfg) (f : Filt) (ds : List Doc) (hok : noRootL cfg ds = true)
    (top below : Frame) (rest : List Frame) (b : List PStr) :
    fRun cfg f ⟨top :: below :: rest, b⟩ (eventsL ds) = sRun cfg ⟨top :: below :: rest, b⟩ (eventsL ds) :=
  deep_forest cfg f ds hok top below rest b

/-- … hence its net effect is C03's: every open element stays as it was, the normal form of the forest is
    appended to the innermost one, `absorb`'s pending text is left pending. -/
theorem deep_mode_net_effect (cfg : Cfg) (f : Filt) (ds : List Doc) (hok : noRootL cfg ds = true)
    (top below : Frame) (rest : List Frame) (b : List PStr) :
    fRun cfg f ⟨top :: below :: rest, b⟩ (eventsL ds) =
      ⟨{ top with kids := top.kids ++ (absorb cfg ((top :: below :: rest).map (·.name)) b ds).1 } :: below :: rest,
        (absorb cfg ((top :: below :: rest).map (·.name)) b ds).2⟩ := by
  rw [deep_forest cfg f ds hok, run_forest cfg ds hok]

example : fRun cfgX fNone ⟨[⟨[3], none, []⟩, ⟨[0], none, []⟩], []⟩ (eventsL docX) =
    sRun cfgX ⟨[⟨[3], none, []⟩, ⟨[0], none, []⟩], []⟩ (eventsL docX) :=
  deep_mode cfgX fNone docX (by decide) _ _ _ _

/-! ## 2–3: root mode and the result of a filtered parse -/

/-- With only the BeautifulSoup object open, a balanced block appends to it exactly `outer`'s first component
    and leaves `outer`'s second component pending, where `outer` handles the nodes in order, threading the
    pending chunks: an ordinary string is added to the pending chunks; a special string flushes them and is
    flushed itself (`txtRoot`: a flush appends the collapsed string iff `allowString` accepts it); an element the
    tag filter ACCEPTS flushes, and is appended with its whole subtree built as the plain machine builds it below
    the root (`absorb cfg [n, root] [] ks`); an element the tag filter REFUSES flushes, contributes what its
    children contribute at the root, and flushes again. -/
theorem root_mode (cfg : Cfg) (hc : CfgOK cfg) (f : Filt) (ds : List Doc) (hok : noRootL cfg ds = true)
    (root : Frame) (hr : root.name = cfg.rootName) (b : List PStr) :
    fRun cfg f ⟨[root], b⟩ (eventsL ds) =
      ⟨[{ root with kids := root.kids ++ (outer cfg f b ds).1 }], (outer cfg f b ds).2⟩ := by
  obtain ⟨rn, pfx, kids⟩ := root
  simp only at hr
  subst hr
  exact root_forest hc f ds hok pfx kids b

/-- The clauses of `outer` spelled out (forest: nodes in order, threading the pending chunks; node: the four
    cases of the docstring of `root_mode`). -/
theorem root_mode_clauses (cfg : Cfg) (f : Filt) (b : List PStr) :
    outer cfg f b [] = ([], b) ∧
    (∀ d ds, outer cfg f b (d :: ds) =
      ((outer1 cfg f b d).1 ++ (outer cfg f (outer1 cfg f b d).2 ds).1, (outer cfg f (outer1 cfg f b d).2 ds).2)) ∧
    (∀ s, outer1 cfg f b (.text 0 s) = ([], b ++ [s])) ∧
    (∀ c s, c ≠ 0 → outer1 cfg f b (.text c s) = (txtRoot cfg f b none ++ txtRoot cfg f [s] (some c), [])) ∧
    (∀ n p ks, f.allowTag n p = true → outer1 cfg f b (.elem n p ks) =
      (txtRoot cfg f b none ++
        [Doc.elem n p ((absorb cfg [n, cfg.rootName] [] ks).1 ++
          txtN cfg [n, cfg.rootName] (absorb cfg [n, cfg.rootName] [] ks).2 none)], [])) ∧
    (∀ n p ks, f.allowTag n p = false → outer1 cfg f b (.elem n p ks) =
      (txtRoot cfg f b none ++ (outer cfg f [] ks).1 ++ txtRoot cfg f (outer cfg f [] ks).2 none, [])) := by
  refine ⟨by simp [outer], fun d ds => by simp [outer], fun s => by simp [outer1],
    fun c s hc => by simp [outer1, hc], fun n p ks h => by simp [outer1, h], fun n p ks h => by simp [outer1, h]⟩

/-- A root-level string is kept iff the filter accepts its FINAL value (after whitespace collapsing); class and
    value are those of the unfiltered parse. -/
theorem root_string_rule (cfg : Cfg) (hc : CfgOK cfg) (f : Filt) (b : List PStr) (cls : Option Cls) :
    txtRoot cfg f b cls =
      (txtN cfg [cfg.rootName] b cls).filter
        (fun d => match d with | .text _ s => f.allowString s | .elem _ _ _ => true) :=
  txtRoot_eq_filter hc f b cls

/-- The tree `BeautifulSoup(markup, parse_only=f)` builds from a well-formed document. -/
theorem parse_only_result (cfg : Cfg) (hc : CfgOK cfg) (f : Filt) (ds : List Doc) (hok : noRootL cfg ds = true) :
    fBuild cfg f (eventsL ds) = (outer cfg f [] ds).1 ++ txtRoot cfg f (outer cfg f [] ds).2 none :=
  fBuild_events hc f ds hok

example : fBuild cfgX fTag (eventsL docX) =
    [.elem [3] (some [8]) [.text 0 [65], .elem [3] (some [9]) []], .elem [3] none []] := by rfl

/-! ## 4: the property in its own words -/

/-- A filter with both kinds of criteria effectively refuses every tag and every string: nothing is kept. -/
theorem mixed_filter_keeps_nothing (cfg : Cfg) (hc : CfgOK cfg) (f : Filt)
    (ht : ∀ n p, f.allowTag n p = false) (hs : ∀ s, f.allowString s = false)
    (ds : List Doc) (hok : noRootL cfg ds = true) :
    fBuild cfg f (eventsL ds) = [] := by
  rw [fBuild_events hc f ds hok, outer_nothing ht hs, txtRoot_refused hs]; rfl

example : fBuild cfgX fNone (eventsL docX) = [] := by rfl

/-- **Tag filter.** If the filter refuses every string, the result is exactly — in document order, nothing
    else — the outermost matching elements of the document (`outermost`: pre-order, a match is not descended
    into), each with its COMPLETE subtree: `normElem` gives the kept element `n` the children
    `absorb cfg [n, root] [] ks`, i.e. all of `ks` in the normal form (text merging, whitespace rule, class rule)
    of an element standing directly below the BeautifulSoup object. -/
theorem tag_filter_keeps_outermost (cfg : Cfg) (hc : CfgOK cfg) (f : Filt)
    (hs : ∀ s, f.allowString s = false) (ds : List Doc) (hok : noRootL cfg ds = true) :
    fBuild cfg f (eventsL ds) = (outermost f ds).map (normElem cfg) := by
  rw [fBuild_events hc f ds hok, outer_tags hs, txtRoot_refused hs, List.append_nil]

/-- `outermost` in words: `e` is among the outermost matches iff it is an element the tag filter accepts that
    occurs in the document at a position all of whose proper ancestors the tag filter refuses. -/
theorem outermost_iff (f : Filt) (ds : List Doc) (e : Doc) :
    e ∈ outermost f ds ↔ isKept f e = true ∧ UnderDropped f ds e :=
  mem_outermost_iff f ds e

/-- `normElem` in words: the kept element is what the UNFILTERED parse makes of that element standing alone
    as the whole document. -/
theorem kept_element_is_standalone_parse (cfg : Cfg) (hc : CfgOK cfg) (n : Name) (p : Option Name)
    (ks : List Doc) (hok : noRootL cfg [.elem n p ks] = true) :
    build cfg (eventsL [.elem n p ks]) = [normElem cfg (.elem n p ks)] := by
  rw [build_eventsL hc _ hok]
  simp [absorb, absorb1, txtN, normElem]

example : outermost fTag docX = [.elem [3] (some [8]) [.text 0 [65], .elem [3] (some [9]) []], .elem [3] none []] := by
  rfl
example : fBuild cfgX fTag (eventsL docX) = (outermost fTag docX).map (normElem cfgX) :=
  tag_filter_keeps_outermost cfgX (by decide) fTag (fun _ => rfl) docX (by decide)

/-- **String filter.** If the filter refuses every tag, the result contains no element at all and is exactly,
    in order, the text runs of the document (`textRuns`: maximal sequences of ordinary text chunks not
    separated by a tag boundary or a special string, concatenated; special strings individually) collapsed by
    the whitespace rule, that `allowString` accepts. -/
theorem string_filter_keeps_runs (cfg : Cfg) (hc : CfgOK cfg) (f : Filt)
    (ht : ∀ n p, f.allowTag n p = false) (ds : List Doc) (hok : noRootL cfg ds = true) :
    fBuild cfg f (eventsL ds) = (textRuns ds).filterMap (keepRun cfg f) ∧
    ∀ d ∈ fBuild cfg f (eventsL ds), ∃ c s, d = Doc.text c s := by
  have h : fBuild cfg f (eventsL ds) = (textRuns ds).filterMap (keepRun cfg f) := by
    have := runs_forest (cfg := cfg) ht ds [] []
    simp only [List.append_nil, runsFrom, keep_emitRun] at this
    rw [fBuild_events hc f ds hok, textRuns, this]
  refine ⟨h, ?_⟩
  intro d hd
  rw [h, List.mem_filterMap] at hd
  obtain ⟨r, _, hr⟩ := hd
  unfold keepRun at hr
  split at hr
  · exact ⟨_, _, (Option.some.inj hr).symm⟩
  · exact absurd hr (by simp)

/-- `<b>xA</b>A<!--A-->  <a>y</a>` : runs `xA`, `A`, the comment (class 5), two spaces (collapse to one), `y` -/
def docS : List Doc :=
  [.elem [4] none [.text 0 [120], .text 0 [65]], .text 0 [65], .text 5 [65], .text 0 [32, 32],
   .elem [3] none [.text 0 [121]]]

example : textRuns docS = [(0, [120, 65]), (0, [65]), (5, [65]), (0, [32, 32]), (0, [121])] := by decide
example : fBuild cfgX fStr (eventsL docS) = [.text 0 [120, 65], .text 0 [65], .text 5 [65]] := by rfl

/-! ### the filtered parse against the unfiltered parse -/

/-- The normal form of a forest depends on the names of the enclosing open elements only through the context
    they carry (`CtxEq`: the same "is a whitespace-preserving element open" and the same nearest
    string-container class); in particular inserting names that are neither changes nothing (`CtxEq.neutral`). -/
theorem normal_form_context_invariance (cfg : Cfg) (ds : List Doc) (c1 c2 : List Name) (b : List PStr)
    (h : CtxEq cfg c1 c2) : absorb cfg c1 b ds = absorb cfg c2 b ds :=
  absorb_congr cfg ds c1 c2 b h

/-- `noDroppedContext` in words: every element the tag filter refuses, all of whose proper ancestors it refuses
    too, and that has a kept element below it (`outermost f ks ≠ []`), is neither whitespace-preserving nor a
    string container. -/
theorem no_dropped_context_iff (cfg : Cfg) (f : Filt) (ds : List Doc) :
    noDroppedContext cfg f ds = true ↔
      ∀ n p ks, UnderDropped f ds (.elem n p ks) → f.allowTag n p = false → outermost f ks ≠ [] →
        cfg.preserve n = false ∧ cfg.container n = none :=
  noDroppedContext_iff cfg f ds

/-- If no DROPPED element that has a kept descendant is whitespace-preserving or a string container
    (`noDroppedContext`, decidable), the filtered parse is — on the nose — the list of outermost matching
    elements of the UNFILTERED parse `build cfg (eventsL ds)` (C03's code-mirror of the real machine). -/
theorem parse_only_eq_outermost_of_full_parse (cfg : Cfg) (hc : CfgOK cfg) (f : Filt)
    (hs : ∀ s, f.allowString s = false) (ds : List Doc) (hok : noRootL cfg ds = true)
    (hctx : noDroppedContext cfg f ds = true) :
    fBuild cfg f (eventsL ds) = outermost f (build cfg (eventsL ds)) := by
  rw [tag_filter_keeps_outermost cfg hc f hs ds hok, build_eventsL hc ds hok, outermost_append, outermost_txtN,
    List.append_nil, outermost_absorb cfg f ds [cfg.rootName] [] (CtxEq.refl _ _) hctx]

example : noDroppedContext cfgX fTag docX = true := by decide
example : fBuild cfgX fTag (eventsL docX) = outermost fTag (build cfgX (eventsL docX)) :=
  parse_only_eq_outermost_of_full_parse cfgX (by decide) fTag (fun _ => rfl) docX (by decide) (by decide)

/-- `<pre><a>␣␣</a></pre>` -/
def docW : List Doc := [.elem [1] none [.elem [3] none [.text 0 [32, 32]]]]

/-- The hypothesis of `parse_only_eq_outermost_of_full_parse` cannot be dropped: for `<pre><a>␣␣</a></pre>` and a
    filter keeping `a`, the kept `a` has lost the whitespace-preserving context of its dropped ancestor — the
    filtered parse holds `" "`, the unfiltered parse `"  "` (compared through the injective flat code
    `Adapter.codeL`). -/
theorem dropped_context_witness :
    noRootL cfgX docW = true ∧ noDroppedContext cfgX fTag docW = false ∧
    Adapter.codeL (fBuild cfgX fTag (eventsL docW)) = Adapter.codeL [.elem [3] none [.text 0 [32]]] ∧
    Adapter.codeL (outermost fTag (build cfgX (eventsL docW))) = Adapter.codeL [.elem [3] none [.text 0 [32, 32]]] ∧
    fBuild cfgX fTag (eventsL docW) ≠ outermost fTag (build cfgX (eventsL docW)) := by
  refine ⟨by decide, by decide, by decide, by decide, ?_⟩
  intro h
  have h2 := congrArg Adapter.codeL h
  revert h2
  decide

end BS.Props.C16

/-! ## the filter itself: what the parser asks before a tag exists = what a search asks of the finished tag

`Filt.tag`/`Filt.str` above are arbitrary predicates. For a real `SoupStrainer` they are `allow_tag_creation` (asked with the raw
attribute strings before the `Tag` exists) and `allow_string_creation`; "the elements of the full parse that the same filter matches"
are those `matches_tag` accepts (the rule model is C10's, `Model/Search.lean`). -/
namespace BS.Props.C16
open BS BS.Search BS.StrainerParse

/-- **parse-time = search-time.** For a strainer with no string criteria, at least one name or attribute criterion, and no function
    among its NAME rules (the property's grammar is function-free; a name function is given a string at parse time and a `Tag` at
    search time), and an element all of whose attributes are single strings (`raw` = what the parser handed over):
    `allow_tag_creation(prefix, name, raw)` = `matches_tag(tag)`. Functions and regular expressions among the ATTRIBUTE rules are
    allowed (they see the same strings both times). -/
theorem allow_tag_creation_eq_matches_tag (O : Oracle) (v : Variant) (s : Strainer) (e : Elem) (raw : List (PStr × PStr))
    (hs : s.stringRules = []) (hr : ¬(s.nameRules.isEmpty = true ∧ s.attrFlat.isEmpty = true))
    (hfn : ∀ r ∈ s.nameRules, Rule.isFunction r = false)
    (hattrs : e.attrs = raw.map (fun p => (p.1, AttrVal.one p.2))) :
    allowTagCreation O s e.pfx e.name raw = (matchesTag O v s e).1 := by
  have hget : ∀ a, rawGet raw a = getAttr e a := by
    intro a; rw [rawGet_eq, getAttr, hattrs]
  have hall : (s.attrFlat.all (fun p => attributeMatch O (rawGet raw p.1) (s.rulesFor p.1))) =
      (s.attrFlat.all (fun p => attributeMatch O (getAttr e p.1) (s.rulesFor p.1))) := by
    congr 1; funext p; rw [hget]
  have hsr : stringRulesOK O s e = true := by simp [stringRulesOK, hs]
  unfold allowTagCreation matchesTag
  simp only [hs, List.isEmpty_nil, Bool.not_true, Bool.false_eq_true, if_false]
  have hr' : (s.nameRules.isEmpty && s.attrFlat.isEmpty) = false := by
    cases h1 : s.nameRules.isEmpty <;> cases h2 : s.attrFlat.isEmpty <;> simp_all
  simp only [hr', Bool.false_eq_true, if_false]
  rw [prefixed_eq, hall, hsr, Bool.and_true]
  by_cases hne : s.nameRules.isEmpty = true
  · -- no name rules: the shortcut cannot fire, the name test is skipped on both sides
    have hsc : shortcutReject s e = false := by
      unfold shortcutReject
      have : s.nameRules = [] := by simpa using hne
      simp [this]
    simp [hne, hsc]
  · have hne' : s.nameRules.isEmpty = false := by simpa using hne
    have hnm := nameRulesEval_fst O v e s.nameRules hfn
    by_cases hsc : shortcutReject s e = true
    · -- one exact-name rule, no prefix, a different name: the loop says no as well
      simp only [hsc, if_true, hne', Bool.not_false, Bool.true_and]
      unfold shortcutReject at hsc
      have hp : truthyPfx e.pfx = false := by
        cases h : truthyPfx e.pfx <;> simp_all
      have hpn : prefixedName e = none := by
        unfold prefixedName; unfold truthyPfx at hp
        cases h : e.pfx with
        | none => rfl
        | some l => cases l <;> simp_all
      cases hnr : s.nameRules with
      | nil => simp [hnr] at hne'
      | cons r rs =>
        cases rs with
        | nil =>
          cases r with
          | string n =>
            simp only [hnr, hp, Bool.not_false, Bool.true_and] at hsc
            have : (e.name != n) = true := hsc
            have hneq : ¬ e.name = n := by simpa using this
            simp [nameLoop, pnMatch, hpn, Rule.matchesString, Rule.baseMatch, hneq]
          | pattern i => simp [hnr] at hsc
          | function i => simp [hnr] at hsc
          | present b => simp [hnr] at hsc
        | cons r2 rs2 => cases r <;> simp [hnr] at hsc
    · have hsc' : shortcutReject s e = false := by simpa using hsc
      simp only [hsc', Bool.false_eq_true, if_false, hne', Bool.not_false, Bool.true_and]
      rw [← hnm]
      cases hx : (nameRulesEval O v e s.nameRules).1 <;> simp

/-- a strainer with name or attribute criteria refuses every string; one with only string criteria refuses every tag; one with both
    refuses both — the three kinds of filter the property distinguishes, read off the code -/
theorem tag_strainer_refuses_strings (O : Oracle) (s : Strainer) (str : PStr)
    (hr : ¬(s.nameRules.isEmpty = true ∧ s.attrFlat.isEmpty = true)) : allowStringCreation O s str = false := by
  unfold allowStringCreation
  cases h1 : s.nameRules.isEmpty <;> cases h2 : s.attrFlat.isEmpty <;> simp_all

theorem string_strainer_refuses_tags (O : Oracle) (s : Strainer) (pfx : Option PStr) (name : PStr) (raw : List (PStr × PStr))
    (hs : s.stringRules ≠ []) : allowTagCreation O s pfx name raw = false := by
  unfold allowTagCreation
  have : s.stringRules.isEmpty = false := by cases h : s.stringRules <;> simp_all
  simp [this]

theorem string_strainer_keeps_matching_strings (O : Oracle) (s : Strainer) (str : PStr)
    (hn : s.nameRules = []) (ha : s.attrFlat = []) (hs : s.stringRules ≠ []) :
    allowStringCreation O s str = s.stringRules.any (fun r => r.matchesString O (some str)) := by
  unfold allowStringCreation
  have : s.stringRules.isEmpty = false := by cases h : s.stringRules <;> simp_all
  simp [hn, ha, this]

/-- non-vacuity: `SoupStrainer("a", id="x")` on `<a id="x" k="v">` -/
def sAX : Strainer := mkStrainer { name := .atom (.str [97]), kwargs := [([105, 100], .atom (.str [120]))] }
def O0 : Oracle := ⟨fun _ _ => false, fun _ _ => false, fun _ _ => false⟩
def eAX : Elem := { id := 1, isTag := true, name := [97], pfx := none, attrs := [([105, 100], .one [120]), ([107], .one [118])], str := none }
example : allowTagCreation O0 sAX eAX.pfx eAX.name [([105, 100], [120]), ([107], [118])] = true := by decide
example : (matchesTag O0 Variant.repaired sAX eAX).1 = true := by decide
example : allowTagCreation O0 sAX none [98] [([105, 100], [120])] = false := by decide

end BS.Props.C16
