import BSModel.Proofs.Attrs
/-! # C17 — attribute values: multi-valued split/join, coercion rules, duplicate policy

Property theorems only. The definitions are the code-mirror in `BSModel/Model/Attrs.lean`
(`splitWs` = `nonwhitespace_re.findall`, `replaceCdataList` = `_replace_cdata_list_attribute_values`,
`htmlSet`/`xmlSet` = the two `__setitem__`s, `startTagLoop` = the attribute loop of `handle_starttag`,
`tagInit` = the attribute part of `Tag.__init__`); the tables are generated from the live code. -/
namespace BS.Props.C17
open BS.Attrs

/-! ## splitting and joining -/

/-- The pattern the code compiles is `\S+`, and the characters it refuses are exactly the regex engine's `\s` class
    for `str` patterns (both generated from the live objects). -/
theorem pattern_and_class :
    BS.Gen.c17NonwhitespacePattern = [92, 83, 43] ∧ BS.Gen.c17NotTokenChars = BS.Gen.c17ReWhitespace := by decide

/-- every kind of whitespace the property speaks of: the ASCII ones, the C0 separators FS/GS/RS/US, NEL, NBSP and the
    Unicode spaces split; ZERO WIDTH SPACE, MONGOLIAN VOWEL SEPARATOR, BOM, NUL and ordinary characters do not -/
theorem whitespace_class :
    (∀ c ∈ [9, 10, 11, 12, 13, 32, 28, 29, 30, 31, 0x85, 0xA0, 0x1680, 0x2000, 0x2001, 0x2002, 0x2003, 0x2004, 0x2005,
        0x2006, 0x2007, 0x2008, 0x2009, 0x200A, 0x2028, 0x2029, 0x202F, 0x205F, 0x3000], isWs c = true) ∧
    (∀ c ∈ [0, 8, 14, 27, 33, 65, 97, 0x7F, 0x84, 0x86, 0x9F, 0xA1, 0x180E, 0x200B, 0x200C, 0x200D, 0x2060, 0xFEFF],
        isWs c = false) := by decide

/-- **split_tokens.** For every amount and kind of whitespace: a string made of optional leading whitespace and tokens
    (non-empty, whitespace-free), each followed by a non-empty whitespace separator (the last one may have none), splits
    into exactly those tokens. -/
theorem split_tokens (lead : PStr) (items : List (PStr × PStr)) (hl : AllWs lead) (hg : GoodItems items) :
    splitWs (lead ++ glue items) = items.map (·.1) := by
  unfold splitWs
  rw [splitGo_ws_nil _ _ hl, splitGo_glue _ hg]

example : splitWs (ofS "\t x \n yz ") = [ofS "x", ofS "yz"] := by decide +kernel
example : GoodItems [([120], [0xA0, 10, 32]), ([121, 122], [])] := by
  simp [GoodItems, Tok, AllWs]; decide

/-- … and every string whatsoever is of that form, so `split_tokens` determines the result for all inputs: the tokens
    are the maximal whitespace-free runs. -/
theorem every_string_decomposes (s : PStr) :
    ∃ lead items, AllWs lead ∧ GoodItems items ∧ s = lead ++ glue items := decompose s

/-- the two together: whatever decomposition of `s` one looks at, its tokens are the result -/
theorem split_is_the_maximal_runs (s lead : PStr) (items : List (PStr × PStr)) (hl : AllWs lead)
    (hg : GoodItems items) (hs : s = lead ++ glue items) : splitWs s = items.map (·.1) := by
  subst hs; exact split_tokens lead items hl hg

/-- every token is non-empty and free of whitespace -/
theorem split_token_shape (s : PStr) : ∀ t ∈ splitWs s, Tok t :=
  fun t ht => splitGo_shape s [] (by simp) t ht

/-- nothing but whitespace is dropped, nothing is reordered -/
theorem split_keeps_nonwhitespace (s : PStr) : (splitWs s).flatten = s.filter (fun c => !isWs c) := by
  simpa [splitWs] using splitGo_flatten s []

example : (splitWs (ofS " a  b ")).flatten = ofS "ab" := by decide +kernel

/-- joining whitespace-free non-empty tokens by single spaces and splitting again gives the tokens back -/
theorem split_join_tokens (toks : List PStr) (h : ∀ t ∈ toks, Tok t) : splitWs (joinSp toks) = toks :=
  split_joinSp toks h

/-- **split_join_stable.** Writing a parsed multi-valued attribute back and parsing it again is stable. -/
theorem split_join_stable (s : PStr) : splitWs (joinSp (splitWs s)) = splitWs s :=
  split_join_tokens _ (split_token_shape s)

example : joinSp (splitWs (ofS " a \n\t b c ")) = ofS "a b c" := by decide +kernel

/-- written back with single spaces: a list value renders as its elements separated by exactly one U+0020 -/
theorem render_list_single_spaces (md cls : Nat) (a b : PStr) (rest : List PStr) :
    renderVal md (.list cls []) = .text [] ∧ renderVal md (.list cls [a]) = .text a ∧
    renderVal md (.list cls (a :: b :: rest)) = .text (a ++ 32 :: joinSp (b :: rest)) := by
  simp [renderVal, joinSp]

/-! ## which attributes are split -/

/-- **multi_valued_iff_table.** An attribute of an element is treated as multi-valued iff the configured map lists it
    under `*` or under the lower-cased element name. -/
theorem multi_valued_iff_table (m : CdataMap) (lower : PStr → PStr) (tag attr : PStr) :
    isMulti m lower tag attr = true ↔
      (∃ set, m.lookup star = some set ∧ attr ∈ set) ∨ (∃ set, m.lookup (lower tag) = some set ∧ attr ∈ set) := by
  unfold isMulti
  cases h1 : m.lookup star <;> cases h2 : m.lookup (lower tag) <;> simp

/-- element names are compared case-insensitively (through `str.lower`) -/
theorem multi_valued_case_insensitive (m : CdataMap) (lower : PStr → PStr) (tag tag' attr : PStr)
    (h : lower tag = lower tag') : isMulti m lower tag attr = isMulti m lower tag' attr := by
  simp [isMulti, h]

/-- the entries the documentation names are in the table the live builder uses (generated), for any spelling of the
    element name; entries are listed as (element, attribute) -/
theorem default_table_documented :
    ∀ p ∈ [("a", "rel"), ("a", "rev"), ("link", "rel"), ("link", "rev"), ("td", "headers"), ("th", "headers"),
           ("form", "accept-charset"), ("object", "archive"), ("area", "rel"), ("icon", "sizes"),
           ("iframe", "sandbox"), ("output", "for"),
           ("A", "rel"), ("LINK", "rev"), ("TD", "headers"), ("Th", "headers"), ("FORM", "accept-charset"),
           ("linK", "rel"),   -- KELVIN SIGN lower-cases to `k`
           ("p", "class"), ("td", "class"), ("x-y", "accesskey"), ("DIV", "dropzone")],
      isMulti BS.Gen.c17DefaultCdataListAttributes pyLower (ofS p.1) (ofS p.2) = true := by decide +kernel

/-- `class`, `accesskey` and `dropzone` are multi-valued on *every* element, whatever its name -/
theorem universal_entries (lower : PStr → PStr) (tag : PStr) :
    isMulti BS.Gen.c17DefaultCdataListAttributes lower tag (ofS "class") = true ∧
    isMulti BS.Gen.c17DefaultCdataListAttributes lower tag (ofS "accesskey") = true ∧
    isMulti BS.Gen.c17DefaultCdataListAttributes lower tag (ofS "dropzone") = true := by
  have h : BS.Gen.c17DefaultCdataListAttributes.lookup star
      = some [ofS "accesskey", ofS "class", ofS "dropzone"] := by decide +kernel
  simp only [isMulti, h]
  refine ⟨?_, ?_, ?_⟩ <;> simp <;> decide

/-- … and neighbours of the table are not: tag-specific entries do not leak to other elements, attribute names are
    case-sensitive, `id`/`href`/`style` are single-valued -/
theorem default_table_neighbours :
    ∀ p ∈ [("p", "rel"), ("td", "rel"), ("div", "headers"), ("tr", "headers"), ("a", "headers"), ("a", "id"),
           ("a", "href"), ("p", "style"), ("a", "REL"), ("p", "CLASS"), ("input", "accept-charset"), ("img", "sizes"),
           ("link", "sizes"), ("label", "for"), ("*", "rel"), ("a", "*"), ("", "rel"), ("a", "")],
      isMulti BS.Gen.c17DefaultCdataListAttributes pyLower (ofS p.1) (ofS p.2) = false := by decide +kernel

/-- the keys of the default table are their own lower-case form, so the lower-cased lookup can reach each of them -/
theorem default_table_keys_lowercase :
    ∀ e ∈ BS.Gen.c17DefaultCdataListAttributes, pyLower e.1 = e.1 := by decide +kernel

/-- `str.lower()` of the model is the per-code-point lookup in the generated table (sorted, so the early-exit lookup is
    the plain lookup) -/
theorem lower_is_table_lookup (c : Nat) :
    lowerCp c = match BS.Gen.c17LowerMap.lookup c with
      | some l => l
      | none => [c] := by
  have h : sortedKeys BS.Gen.c17LowerMap = true := by decide +kernel
  simp only [lowerCp, lookupSorted_eq_lookup _ c h]
  cases List.lookup c BS.Gen.c17LowerMap <;> rfl

example : pyLower (ofS "TD") = ofS "td" ∧ pyLower [0x212A] = ofS "k" ∧ pyLower [0x130] = [105, 0x307] := by decide +kernel

/-- Refinement: over a dictionary (distinct keys, the plain `AttributeDict` the parser uses by default) the in-place
    loop of `_replace_cdata_list_attribute_values` computes the documented replacement — for the default table, a
    custom map, `{}` or `None` alike. -/
theorem replace_refines_spec (md : Nat) (m : Option CdataMap) (lower : PStr → PStr) (lc : Nat) (tag : PStr)
    (d : Items) (hnd : (keys d).Nodup) :
    replaceCdataList md m lower lc .plain tag d = .ok (replaceSpec m lower lc tag d) :=
  replaceCdataList_plain md m lower lc tag d hnd

/-- … and for every dictionary class (`HTMLAttributeDict`, `XMLAttributeDict`) when the values are strings or lists, as
    they are when the dictionary comes from a parser. -/
theorem replace_refines_spec_any_class (md : Nat) (m : Option CdataMap) (lower : PStr → PStr) (lc : Nat)
    (cls : DictClass) (tag : PStr) (d : Items) (hnd : (keys d).Nodup) (hd : ∀ p ∈ d, StrOrList p.2) :
    replaceCdataList md m lower lc cls tag d = .ok (replaceSpec m lower lc tag d) :=
  replaceCdataList_strOrList md m lower lc cls tag d hnd hd

/-- **custom_map_exact.** Under any map `m` (the default table or a custom one) the set of attributes, their order and
    every value not covered stay as they were, and a covered string value is replaced by the list of its tokens, in the
    builder's list class. -/
theorem custom_map_exact (m : CdataMap) (lower : PStr → PStr) (lc : Nat) (tag : PStr) (d : Items) :
    keys (replaceSpec (some m) lower lc tag d) = keys d ∧
    ∀ k, dictGet (replaceSpec (some m) lower lc tag d) k =
      (dictGet d k).map (fun v => if isMulti m lower tag k then splitVal lc v else v) := by
  refine ⟨?_, fun k => ?_⟩
  · exact keys_map_upd d (fun p => isMulti m lower tag p.1) (fun p => splitVal lc p.2)
  · exact dictGet_map_upd d (fun k => isMulti m lower tag k) (splitVal lc) k

/-- a string value becomes a list exactly when the map covers the attribute -/
theorem split_iff_covered (m : CdataMap) (lower : PStr → PStr) (lc : Nat) (tag : PStr) (d : Items) (k s : PStr)
    (h : dictGet d k = some (.str s)) :
    (dictGet (replaceSpec (some m) lower lc tag d) k = some (.list lc (splitWs s)) ↔ isMulti m lower tag k = true) ∧
    (dictGet (replaceSpec (some m) lower lc tag d) k = some (.str s) ↔ isMulti m lower tag k = false) := by
  rw [(custom_map_exact m lower lc tag d).2 k, h]
  cases isMulti m lower tag k <;> simp [splitVal]

/-- **others_verbatim.** An attribute the map does not cover keeps its value, whatever it is. -/
theorem others_verbatim (m : CdataMap) (lower : PStr → PStr) (lc : Nat) (tag : PStr) (d : Items) (k : PStr)
    (h : isMulti m lower tag k = false) :
    dictGet (replaceSpec (some m) lower lc tag d) k = dictGet d k := by
  rw [(custom_map_exact m lower lc tag d).2 k, h]; simp

/-- a value that is already a list (a copied tag, html5lib's second pass) is left alone even when covered -/
theorem list_values_kept (m : CdataMap) (lower : PStr → PStr) (lc c : Nat) (tag : PStr) (d : Items) (k : PStr)
    (l : List PStr) (h : dictGet d k = some (.list c l)) :
    dictGet (replaceSpec (some m) lower lc tag d) k = some (.list c l) := by
  rw [(custom_map_exact m lower lc tag d).2 k, h]
  cases isMulti m lower tag k <;> simp [splitVal]

/-- **none_disables.** With `multi_valued_attributes=None` (or `{}`) nothing is split, for every dictionary class. -/
theorem none_disables (md : Nat) (lower : PStr → PStr) (lc : Nat) (cls : DictClass) (tag : PStr) (d : Items) :
    replaceCdataList md none lower lc cls tag d = .ok d ∧
    replaceCdataList md (some []) lower lc cls tag d = .ok d := by
  simp [replaceCdataList]

example : replaceCdataList 0 (some BS.Gen.c17DefaultCdataListAttributes) pyLower 1 .plain (ofS "TD")
    [(ofS "headers", .str (ofS "a  b")), (ofS "id", .str (ofS "a  b")), (ofS "class", .str [])]
    = .ok [(ofS "headers", .list 1 [ofS "a", ofS "b"]), (ofS "id", .str (ofS "a  b")), (ofS "class", .list 1 [])] := by
  decide +kernel

/-! ## coercions of the attribute containers -/

/-- `str()` of a number is its decimal numeral: digits only, no leading zero, denoting the number; a minus sign in
    front for negatives; `0` is `"0"`. -/
theorem int_str_is_the_numeral (n : Nat) :
    decVal (natStr n) = n ∧ (∀ c ∈ natStr n, 48 ≤ c ∧ c ≤ 57) ∧
    (n ≠ 0 → ∃ c rest, natStr n = c :: rest ∧ c ≠ 48) ∧
    intStr (Int.ofNat n) = natStr n ∧ intStr (Int.negSucc n) = 45 :: natStr (n + 1) ∧ intStr 0 = [48] :=
  ⟨natStr_val n, natStr_digits n, natStr_head n, rfl, rfl, by decide⟩

example : intStr (-120) = ofS "-120" := by decide

/-- **html_coercion** (total): assigning *any* value through the HTML container either raises `ValueError` — exactly
    for an int beyond the interpreter's digit limit — or leaves the key holding the documented coercion of the value
    (`htmlStored`: numbers **including 0, 0.0 and negatives** → their `str`; `True` → the key's own unqualified name;
    `False`/`None` → absent; strings, lists, other objects → themselves), every other key untouched and the key order
    that of a `dict` (kept in place, appended when new, removed when dropped). -/
theorem html_coercion (md : Nat) (d : Items) (k : Key) (v : PyVal) :
    (htmlSet md d k v = .valueError ↔ tooBig md v) ∧
    ∀ d', htmlSet md d k v = .ok d' →
      dictGet d' k.str = htmlStored k v ∧ (∀ k', k' ≠ k.str → dictGet d' k' = dictGet d k') ∧
      keys d' = match htmlStored k v with
        | none => (keys d).filter (fun x => !(x == k.str))
        | some _ => if dictHas d k.str then keys d else keys d ++ [k.str] := by
  refine ⟨htmlSet_err_iff md d k v, fun d' hd => ?_⟩
  rcases htmlSet_ok_cases md d d' k v hd with ⟨h1, rfl⟩ | ⟨w, h1, rfl⟩
  · rw [h1]
    exact ⟨dictGet_del_self _ _, fun k' h => dictGet_del_other _ _ _ h, keys_dictDel _ _⟩
  · rw [h1]
    exact ⟨dictGet_set_self _ _ _, fun k' h => dictGet_set_other _ _ _ _ h, keys_dictSet _ _ _⟩

example : htmlSet 4300 [] (.plain (ofS "k")) (.int 0) = .ok [(ofS "k", .str (ofS "0"))] := by decide
example : htmlSet 4300 [(ofS "k", .str [])] (.plain (ofS "k")) (.float (ofS "0.0") true)
    = .ok [(ofS "k", .str (ofS "0.0"))] := by decide
example : htmlSet 4300 [] (mkNs (some (ofS "xml")) (some (ofS "lang"))) (.bool true)
    = .ok [(ofS "xml:lang", .str (ofS "lang"))] := by decide
example : htmlSet 4300 [(ofS "a", .str []), (ofS "k", .str []), (ofS "b", .str [])] (.plain (ofS "k")) (.bool false)
    = .ok [(ofS "a", .str []), (ofS "b", .str [])] := by decide
example : tooBig 2 (.int 100) := by simp only [tooBig]; decide

/-- the key-name rule for `True`: a plain key gives itself, a namespaced key its unqualified name (and the
    default-namespace key `xmlns`, whose name "has no value", gives `None`, i.e. a bare attribute) -/
theorem html_true_own_name (s p n : PStr) (hn : n ≠ []) :
    htmlStored (.plain s) (.bool true) = some (.str s) ∧
    htmlStored (mkNs (some p) (some n)) (.bool true) = some (.str n) ∧
    htmlStored (mkNs (some p) none) (.bool true) = some .none ∧
    htmlStored (mkNs (some p) (some [])) (.bool true) = some .none := by
  cases n with
  | nil => exact absurd rfl hn
  | cons c cs => simp [htmlStored, ownName, mkNs]

/-- **xml_coercion** (total): the XML container raises only for an int beyond the digit limit; otherwise the key holds
    `xmlStored v` (numbers incl. 0 → `str`; `None` → `""`; `True`/`False` kept as booleans; the rest unchanged), the key
    is never removed, other keys are untouched. -/
theorem xml_coercion (md : Nat) (d : Items) (k : Key) (v : PyVal) :
    (xmlSet md d k v = .valueError ↔ tooBig md v) ∧
    ∀ d', xmlSet md d k v = .ok d' →
      dictGet d' k.str = some (xmlStored v) ∧ (∀ k', k' ≠ k.str → dictGet d' k' = dictGet d k') ∧
      keys d' = if dictHas d k.str then keys d else keys d ++ [k.str] := by
  refine ⟨xmlSet_err_iff md d k v, fun d' hd => ?_⟩
  rw [xmlSet_ok md d d' k v hd]
  exact ⟨dictGet_set_self _ _ _, fun k' h => dictGet_set_other _ _ _ _ h, keys_dictSet _ _ _⟩

example : xmlSet 4300 [] (.plain (ofS "k")) .none = .ok [(ofS "k", .str [])] := by decide
example : xmlSet 4300 [] (.plain (ofS "k")) (.bool false) = .ok [(ofS "k", .bool false)] := by decide
example : xmlSet 4300 [] (.plain (ofS "k")) (.int 0) = .ok [(ofS "k", .str (ofS "0"))] := by decide

/-- Invariant over every sequence of assignments: an HTML container never holds an int, a float or a bool
    (`HtmlStorable`); an XML container never holds an int, a float or `None` (`XmlStorable`). -/
theorem containers_hold_no_numbers (md : Nat) (sets : List (Key × PyVal)) (d0 d : Items) :
    ((∀ p ∈ d0, HtmlStorable p.2) → setMany md .html d0 sets = .ok d → ∀ p ∈ d, HtmlStorable p.2) ∧
    ((∀ p ∈ d0, XmlStorable p.2) → setMany md .xml d0 sets = .ok d → ∀ p ∈ d, XmlStorable p.2) := by
  constructor
  · induction sets generalizing d0 with
    | nil => intro h0 h; simp only [setMany, Res.ok.injEq] at h; subst h; exact h0
    | cons kv rest ih =>
      obtain ⟨k, v⟩ := kv
      intro h0 h
      simp only [setMany, setItem] at h
      cases h1 : htmlSet md d0 k v with
      | valueError => simp [h1, Res.bind] at h
      | ok d1 =>
        simp only [h1, Res.bind] at h
        refine ih d1 ?_ h
        intro p hp
        rcases htmlSet_ok_cases md d0 d1 k v h1 with ⟨_, rfl⟩ | ⟨w, hw, rfl⟩
        · exact h0 p (mem_dictDel _ _ _ hp)
        · rcases mem_dictSet _ _ _ _ hp with h2 | h2
          · exact h0 p h2
          · rw [h2]; exact htmlStored_storable k v w hw
  · induction sets generalizing d0 with
    | nil => intro h0 h; simp only [setMany, Res.ok.injEq] at h; subst h; exact h0
    | cons kv rest ih =>
      obtain ⟨k, v⟩ := kv
      intro h0 h
      simp only [setMany, setItem] at h
      cases h1 : xmlSet md d0 k v with
      | valueError => simp [h1, Res.bind] at h
      | ok d1 =>
        simp only [h1, Res.bind] at h
        refine ih d1 ?_ h
        intro p hp
        rw [xmlSet_ok md d0 d1 k v h1] at hp
        rcases mem_dictSet _ _ _ _ hp with h2 | h2
        · exact h0 p h2
        · rw [h2]; exact xmlStored_storable v

example : setMany 4300 .html [] [(.plain [107], .int 0), (.plain [108], .bool true), (.plain [107], .float [48, 46, 53] false)]
    = .ok [([107], .str [48, 46, 53]), ([108], .str [108])] := by decide

/-- The plain `AttributeDict` — the class html.parser-built tags hold unless the builder is told otherwise
    (`TreeBuilder.__init__` default, read by `BeautifulSoupHTMLParser.__init__`) — coerces nothing. -/
theorem plain_dict_no_coercion (md : Nat) (d : Items) (k : Key) (v : PyVal) :
    setItem md .plain d k v = .ok (dictSet d k.str v) := rfl

/-- Documentation of the defect in the unrepaired code (element.py:280, `value in (False, None)`): `0`, `0.0`, `-0.0`
    and `0j` are *removed* instead of stored, although the documented coercion stores `"0"`/`"0.0"`. -/
theorem old_membership_test_drops_zero :
    htmlSetOld 4300 [(ofS "k", .str (ofS "v"))] (.plain (ofS "k")) (.int 0) = .ok [] ∧
    htmlSetOld 4300 [] (.plain (ofS "k")) (.float (ofS "0.0") true) = .ok [] ∧
    htmlSetOld 4300 [] (.plain (ofS "k")) (.float (ofS "-0.0") true) = .ok [] ∧
    htmlSetOld 4300 [] (.plain (ofS "k")) (.other 7 true) = .ok [] ∧
    htmlStored (.plain (ofS "k")) (.int 0) = some (.str (ofS "0")) ∧
    htmlStored (.plain (ofS "k")) (.float (ofS "0.0") true) = some (.str (ofS "0.0")) := by
  decide

/-- … and that is the whole difference: on every value that is not a non-`False` object equal to `False`, the
    membership test and the identity test agree. -/
theorem old_agrees_elsewhere (md : Nat) (d : Items) (k : Key) (v : PyVal)
    (h : eqFalse v = false ∨ v = .bool false) : htmlSetOld md d k v = htmlSet md d k v := by
  rcases h with h | h
  · cases v <;> simp_all [htmlSetOld, eqFalse, htmlSet]
  · subst h; simp [htmlSetOld, eqFalse, htmlSet]

/-! ## duplicate attributes -/

/-- **dup_policy**, `replace` (the default, also `None`): over any attribute list of a start tag, each attribute ends up
    with the value of its *last* occurrence, at the position of its first occurrence. -/
theorem dup_policy_replace (md : Nat) (cls : DictClass) (attrs : List (PStr × Option PStr)) :
    ∃ d, startTagLoop md cls .replace attrs [] = .ok d ∧
      (∀ k, dictGet d k = (valsOf attrs k).getLast?.map .str) ∧
      keys d = dedupAcc [] (attrs.map (·.1)) := by
  have := startTagLoop_inv md cls .replace encReplace
    (by intro vs; cases vs <;> simp [encReplace, List.getLast?_isSome])
    (by intro v; simp [encReplace])
    (fun d k v vs hne hget => hdup_replace md cls d k v vs hne hget) attrs [] []
    (by intro k; simp [dictGet, valsOf, encReplace])
  simpa [encReplace, keys] using this

/-- `ignore`: each attribute keeps the value of its *first* occurrence. -/
theorem dup_policy_ignore (md : Nat) (cls : DictClass) (attrs : List (PStr × Option PStr)) :
    ∃ d, startTagLoop md cls .ignore attrs [] = .ok d ∧
      (∀ k, dictGet d k = (valsOf attrs k).head?.map .str) ∧
      keys d = dedupAcc [] (attrs.map (·.1)) := by
  have := startTagLoop_inv md cls .ignore encIgnore
    (by intro vs; cases vs <;> simp [encIgnore])
    (by intro v; simp [encIgnore])
    (fun d k v vs hne hget => hdup_ignore md cls d k v vs hne hget) attrs [] []
    (by intro k; simp [dictGet, valsOf, encIgnore])
  simpa [encIgnore, keys] using this

/-- a callable decides for itself; for the documented accumulating handler an attribute given once keeps its string
    and an attribute given several times holds the list of *all* its values in source order. -/
theorem dup_policy_callable_accumulate (md : Nat) (cls : DictClass) (attrs : List (PStr × Option PStr)) :
    ∃ d, startTagLoop md cls (.callable accumulate) attrs [] = .ok d ∧
      (∀ k, dictGet d k = match valsOf attrs k with
        | [] => none
        | [v] => some (.str v)
        | vs => some (.list 0 vs)) ∧
      keys d = dedupAcc [] (attrs.map (·.1)) := by
  have := startTagLoop_inv md cls (.callable accumulate) encAccumulate
    (by intro vs; match vs with
      | [] => rfl
      | [_] => rfl
      | _ :: _ :: _ => rfl)
    (by intro v; rfl)
    (fun d k v vs hne hget => hdup_accumulate md cls d k v vs hne hget) attrs [] []
    (by intro k; simp [dictGet, valsOf, encAccumulate])
  obtain ⟨d, h1, h2, h3⟩ := this
  refine ⟨d, h1, ?_, by simpa [keys] using h3⟩
  intro k
  rw [h2 k]
  simp only [List.nil_append]
  match valsOf attrs k with
  | [] => rfl
  | [_] => rfl
  | _ :: _ :: _ => rfl

/-- the callable is consulted for repeated attributes only, with the dictionary so far, the key and the new value
    (`None` already turned into `""`); first occurrences are stored directly -/
theorem dup_policy_callable_called (md : Nat) (cls : DictClass) (f : Items → PStr → PStr → Items)
    (d : Items) (k : PStr) (v : Option PStr) (rest : List (PStr × Option PStr)) :
    startTagLoop md cls (.callable f) ((k, v) :: rest) d =
      if dictHas d k then startTagLoop md cls (.callable f) rest (f d k (rawVal v))
      else startTagLoop md cls (.callable f) rest (dictSet d k (.str (rawVal v))) := by
  by_cases h : dictHas d k = true
  · simp [startTagLoop, h, onDuplicate, Res.bind]
  · simp [startTagLoop, h, setItem_str, Res.bind]

/-- the surviving attributes are exactly the distinct names, in order of first appearance -/
theorem dup_keys_first_occurrence (ks : List PStr) :
    (dedupAcc [] ks).Nodup ∧ ∀ k, k ∈ dedupAcc [] ks ↔ k ∈ ks := by
  refine ⟨nodup_dedupAcc [] ks (by simp), fun k => ?_⟩
  rw [mem_dedupAcc]; simp

example : startTagLoop 0 .plain .replace [(ofS "a", some (ofS "1")), (ofS "b", none), (ofS "a", some (ofS "2")),
    (ofS "a", some (ofS "3"))] [] = .ok [(ofS "a", .str (ofS "3")), (ofS "b", .str [])] := by decide +kernel
example : startTagLoop 0 .plain .ignore [(ofS "a", some (ofS "1")), (ofS "b", none), (ofS "a", some (ofS "2"))] []
    = .ok [(ofS "a", .str (ofS "1")), (ofS "b", .str [])] := by decide +kernel
example : startTagLoop 0 .plain (.callable accumulate) [(ofS "a", some (ofS "1")), (ofS "a", none),
    (ofS "a", some (ofS "3"))] [] = .ok [(ofS "a", .list 0 [ofS "1", [], ofS "3"])] := by decide +kernel

/-! ## end to end: a start tag through html.parser with the default containers -/

/-- For a builder with a non-empty multi-valued map `m`, **any** attribute dictionary class (`attribute_dict_class`),
    any list class and the `replace` policy, a start tag `<name k1=v1 k2=v2 …>` yields a tag whose dictionary is of that
    class and whose attribute `k` holds: nothing if `k` does not occur; the token list of its last value if `m` covers
    `(name.lower(), k)`; its last value verbatim otherwise — in order of first appearance. -/
theorem parsed_start_tag (md : Nat) (lower : PStr → PStr) (m : CdataMap) (hm : m ≠ []) (cls : DictClass) (lc : Nat) (x : Bool)
    (name : PStr) (attrs : List (PStr × Option PStr)) :
    ∃ t, parseStartTag md lower ⟨some m, cls, lc, x⟩ .replace name attrs = .ok t ∧ t.cls = cls ∧ t.listCls = lc ∧
      keys t.items = dedupAcc [] (attrs.map (·.1)) ∧
      ∀ k, dictGet t.items k = (valsOf attrs k).getLast?.map
        (fun s => if isMulti m lower name k then .list lc (splitWs s) else .str s) := by
  obtain ⟨d, h1, h2, h3⟩ := dup_policy_replace md cls attrs
  have hnd : (keys d).Nodup := by rw [h3]; exact nodup_dedupAcc [] _ (by simp)
  have hstr : ∀ p ∈ d, StrOrList p.2 := by
    intro p hp
    have := dictGet_of_mem d hnd p hp
    rw [h2 p.1] at this
    cases hl : (valsOf attrs p.1).getLast? with
    | none => simp [hl] at this
    | some s => simp [hl] at this; rw [← this]; trivial
  have htruthy : truthyMap (some m) = true := by cases m <;> simp_all [truthyMap]
  refine ⟨⟨cls, lc, replaceSpec (some m) lower lc name d, x⟩, ?_, rfl, rfl, ?_, ?_⟩
  · simp only [parseStartTag, h1, Res.bind, tagInit, htruthy, if_true]
    rw [replaceCdataList_strOrList md (some m) lower lc cls name d hnd hstr]
  · rw [(custom_map_exact m lower lc name d).1, h3]
  · intro k
    rw [(custom_map_exact m lower lc name d).2 k, h2 k]
    cases (valsOf attrs k).getLast? with
    | none => rfl
    | some s => cases isMulti m lower name k <;> simp [splitVal]

/-- … and with `multi_valued_attributes=None` every attribute holds its last value verbatim. -/
theorem parsed_start_tag_none (md : Nat) (lower : PStr → PStr) (cls : DictClass) (lc : Nat) (x : Bool) (name : PStr)
    (attrs : List (PStr × Option PStr)) :
    ∃ t, parseStartTag md lower ⟨none, cls, lc, x⟩ .replace name attrs = .ok t ∧ t.cls = cls ∧
      keys t.items = dedupAcc [] (attrs.map (·.1)) ∧
      ∀ k, dictGet t.items k = (valsOf attrs k).getLast?.map .str := by
  obtain ⟨d, h1, h2, h3⟩ := dup_policy_replace md cls attrs
  have hnd : (keys d).Nodup := by rw [h3]; exact nodup_dedupAcc [] _ (by simp)
  have hstr : ∀ p ∈ d, StrOrList p.2 ∨ cls = .plain := by
    intro p hp
    have := dictGet_of_mem d hnd p hp
    rw [h2 p.1] at this
    cases hl : (valsOf attrs p.1).getLast? with
    | none => simp [hl] at this
    | some s => simp [hl] at this; rw [← this]; exact Or.inl trivial
  refine ⟨⟨cls, lc, d, x⟩, ?_, rfl, h3, h2⟩
  simp only [parseStartTag, h1, Res.bind, tagInit, truthyMap, Bool.false_eq_true, if_false]
  rw [copyInto_strOrList md cls d [] (by simpa using hnd) hstr]
  simp

example : parseStartTag 0 pyLower ⟨some BS.Gen.c17DefaultCdataListAttributes, .html, 1, false⟩ .replace (ofS "a")
    [(ofS "rel", some (ofS "x")), (ofS "id", some (ofS "p q")), (ofS "rel", some (ofS " y\tz "))]
    = .ok ⟨.html, 1, [(ofS "rel", .list 1 [ofS "y", ofS "z"]), (ofS "id", .str (ofS "p q"))], false⟩ := by decide +kernel

/-! ## histories: every attribute owns its value

The documented meaning has no sharing between attributes: the state of a session is the list of tags made so far, each
with its own values. The code refines this only if it never hands the same list object to two attributes (the harness
checks object identity and replays in-place changes). -/

/-- Changing one attribute's list in place (`tag_i[k].append(…)`, `.remove`, `.clear`, `.sort`, `+=`, …) changes that
    value by the list operation and **nothing else**: every other attribute of every tag made so far — same document,
    another document of the same builder, `new_tag` results, copies — keeps its value; names, dictionary classes and key
    order stay. -/
theorem mutate_leaves_others_unchanged (md : Nat) (lower : PStr → PStr) (b : BuilderCfg) (st : Hist) (i : Nat)
    (k : PStr) (op : ListOp) :
    ∃ st', histStep md lower b st (.mutate i k op) = .ok st' ∧ st'.length = st.length ∧
      (∀ j k', (j ≠ i ∨ k' ≠ k) → attrAt st' j k' = attrAt st j k') ∧
      attrAt st' i k = (attrAt st i k).map (mutateValue op) ∧
      (∀ j : Nat, (st'[j]?).map (fun (p : PStr × TagAttrs) => (p.1, p.2.cls, p.2.listCls, keys p.2.items))
          = (st[j]?).map (fun (p : PStr × TagAttrs) => (p.1, p.2.cls, p.2.listCls, keys p.2.items))) := by
  refine ⟨_, rfl, length_modifyAt _ _ _, ?_, ?_, ?_⟩
  · intro j k' h
    simp only [attrAt, getElem?_modifyAt]
    by_cases hj : j = i
    · subst hj
      have hk : k' ≠ k := by rcases h with h | h; exact absurd rfl h; exact h
      cases st[j]? with
      | none => simp
      | some p => simp [mutateTag_get_other _ _ _ _ hk]
    · simp [hj]
  · simp only [attrAt, getElem?_modifyAt, if_true]
    cases st[i]? with
    | none => simp
    | some p => simp [mutateTag_get_self]
  · intro j
    simp only [getElem?_modifyAt]
    by_cases hj : j = i
    · subst hj
      cases st[j]? with
      | none => simp
      | some p =>
        obtain ⟨h1, h2, h3⟩ := mutateTag_cls p.2 k op
        simp [h1, h2, h3]
    · simp [hj]

example : histStep 0 pyLower ⟨some BS.Gen.c17DefaultCdataListAttributes, .plain, 1, false⟩
    [(ofS "p", ⟨.plain, 1, [(ofS "class", .list 1 [ofS "a", ofS "b"])], false⟩),
     (ofS "p", ⟨.plain, 1, [(ofS "class", .list 1 [ofS "a", ofS "b"])], false⟩)] (.mutate 0 (ofS "class") (.append (ofS "x")))
    = .ok [(ofS "p", ⟨.plain, 1, [(ofS "class", .list 1 [ofS "a", ofS "b", ofS "x"])], false⟩),
           (ofS "p", ⟨.plain, 1, [(ofS "class", .list 1 [ofS "a", ofS "b"])], false⟩)] := by decide +kernel

/-- Making another tag — a later start tag (same or later document), `new_tag`, a copy — leaves every tag made before
    exactly as it was. -/
theorem creation_leaves_earlier_tags_unchanged (md : Nat) (lower : PStr → PStr) (b : BuilderCfg) (st st' : Hist)
    (s : Step) (hs : (∃ n a, s = .parse n a) ∨ (∃ n d, s = .newTag n d) ∨ (∃ i, s = .copy i) ∨ (∃ i x, s = .ctor i x))
    (h : histStep md lower b st s = .ok st') : ∀ j, j < st.length → st'[j]? = st[j]? := by
  intro j hj
  have key : ∀ (r : Res TagAttrs) (n : PStr),
      (r.bind fun t => Res.ok (st ++ [(n, t)])) = .ok st' → st'[j]? = st[j]? := by
    intro r n hr
    cases r with
    | valueError => simp [Res.bind] at hr
    | ok t =>
      simp only [Res.bind, Res.ok.injEq] at hr
      subst hr
      exact List.getElem?_append_left hj
  rcases hs with ⟨n, a, rfl⟩ | ⟨n, d, rfl⟩ | ⟨i, rfl⟩ | ⟨i, x, rfl⟩
  · exact key _ _ h
  · exact key _ _ h
  · simp only [histStep] at h
    cases hi : st[i]? with
    | none => simp only [hi, Res.ok.injEq] at h; subst h; rfl
    | some p => simp only [hi] at h; exact key _ _ h
  · simp only [histStep] at h
    cases hi : st[i]? with
    | none => simp only [hi, Res.ok.injEq] at h; subst h; rfl
    | some p => simp only [hi] at h; exact key _ _ h

/-- A start tag parsed *after* any history — earlier documents of the same builder, in-place changes to their lists —
    gets the same attributes as if it were the first thing the builder ever saw: the documented tokens of its own values. -/
theorem later_parse_independent_of_history (md : Nat) (lower : PStr → PStr) (m : CdataMap) (hm : m ≠ [])
    (cls : DictClass) (lc : Nat) (x : Bool) (st1 st2 : Hist) (name : PStr) (attrs : List (PStr × Option PStr)) :
    ∃ t, histStep md lower ⟨some m, cls, lc, x⟩ st1 (.parse name attrs) = .ok (st1 ++ [(name, t)]) ∧
         histStep md lower ⟨some m, cls, lc, x⟩ st2 (.parse name attrs) = .ok (st2 ++ [(name, t)]) ∧
         ∀ k, dictGet t.items k = (valsOf attrs k).getLast?.map
           (fun s => if isMulti m lower name k then .list lc (splitWs s) else .str s) := by
  obtain ⟨t, h1, _, _, _, h5⟩ := parsed_start_tag md lower m hm cls lc x name attrs
  exact ⟨t, by simp [histStep, h1, Res.bind], by simp [histStep, h1, Res.bind], h5⟩

/-- the in-place operations are the list operations of Python (`sort` orders by code point, stably for equal strings) -/
theorem list_ops_examples :
    applyListOp (.append [120]) [[97], [98]] = [[97], [98], [120]] ∧
    applyListOp (.remove [97]) [[97], [98], [97]] = [[98], [97]] ∧
    applyListOp .clear [[97]] = [] ∧
    applyListOp .sort [[98], [97, 97], [97], [66]] = [[66], [97], [97, 97], [98]] ∧
    applyListOp (.iadd [[99], [100]]) [[97]] = [[97], [99], [100]] ∧
    applyListOp .reverse [[97], [98]] = [[98], [97]] ∧
    applyListOp .pop [[97], [98]] = [[97]] ∧
    applyListOp (.insert0 [120]) [[97]] = [[120], [97]] := by decide

/-! ## the whole table, not a sample -/

/-- **Every** entry of the generated default table is honoured, for every spelling of the element name that
    lower-cases to the entry's key, and the `*` entries on every element whatsoever. -/
theorem default_table_every_entry_honoured (lower : PStr → PStr) (tag a : PStr) (e : PStr × List PStr)
    (he : e ∈ BS.Gen.c17DefaultCdataListAttributes) (ha : a ∈ e.2) (hk : e.1 = star ∨ e.1 = lower tag) :
    isMulti BS.Gen.c17DefaultCdataListAttributes lower tag a = true :=
  isMulti_of_entry _ lower tag a (by decide +kernel) e he ha hk

/-- … and nothing else is: an attribute is multi-valued only through an entry of the table (any map). -/
theorem multi_valued_only_through_an_entry (m : CdataMap) (lower : PStr → PStr) (tag a : PStr)
    (h : isMulti m lower tag a = true) : ∃ e ∈ m, a ∈ e.2 ∧ (e.1 = star ∨ e.1 = lower tag) :=
  entry_of_isMulti m lower tag a h

example : ∃ e ∈ BS.Gen.c17DefaultCdataListAttributes, ofS "headers" ∈ e.2 ∧ (e.1 = star ∨ e.1 = pyLower (ofS "TH")) :=
  multi_valued_only_through_an_entry _ pyLower (ofS "TH") (ofS "headers") (by decide +kernel)

/-- the documented (element, attribute) pairs are all entries of the generated table (`*` = every element) -/
theorem documented_pairs_in_table :
    ∀ p ∈ [("*", "class"), ("*", "accesskey"), ("*", "dropzone"), ("a", "rel"), ("a", "rev"), ("link", "rel"),
           ("link", "rev"), ("td", "headers"), ("th", "headers"), ("form", "accept-charset"), ("object", "archive"),
           ("area", "rel"), ("icon", "sizes"), ("iframe", "sandbox"), ("output", "for")],
      ∃ e ∈ BS.Gen.c17DefaultCdataListAttributes, e.1 = ofS p.1 ∧ ofS p.2 ∈ e.2 := by decide +kernel

/-- On ASCII names `str.lower` is ASCII lower-casing (checked for all 128 code points against the generated table), so
    for every ASCII spelling of an element name the lookup is the one for its lower-case form. -/
theorem ascii_names_case_insensitive (m : CdataMap) (tag a : PStr) (h : ∀ c ∈ tag, c < 128) :
    isMulti m pyLower tag a = isMulti m pyLower (asciiLower tag) a := by
  apply multi_valued_case_insensitive
  rw [pyLower_ascii tag h, pyLower_ascii (asciiLower tag)]
  · simp only [asciiLower, List.map_map]
    apply List.map_congr_left
    intro c _
    simp only [Function.comp]
    by_cases h1 : 65 ≤ c ∧ c ≤ 90
    · have e1 : asciiLowerCp c = c + 32 := if_pos h1
      rw [e1]; exact (if_neg (by omega)).symm
    · have e1 : asciiLowerCp c = c := if_neg h1
      rw [e1, e1]
  · intro c hc
    simp only [asciiLower, List.mem_map] at hc
    obtain ⟨x, hx, rfl⟩ := hc
    have := h x hx
    simp only [asciiLowerCp]; split <;> omega

example : isMulti BS.Gen.c17DefaultCdataListAttributes pyLower (ofS "TaBlE") (ofS "class") = true := by decide +kernel

/-- No attribute name of the default table contains a colon, so a prefixed attribute (`svg:class`, `xlink:href`,
    `xml:lang`, any `NamespacedAttribute` with prefix and name) is never split under the default table — on any
    element; a `NamespacedAttribute` without prefix is its bare name and is treated like the plain key. -/
theorem prefixed_attributes_never_split (lower : PStr → PStr) (tag p n : PStr) (hp : p ≠ []) (hn : n ≠ []) :
    (mkNs (some p) (some n)).str = p ++ 58 :: n ∧
    isMulti BS.Gen.c17DefaultCdataListAttributes lower tag (mkNs (some p) (some n)).str = false ∧
    (mkNs none (some n)).str = n ∧ (mkNs (some []) (some n)).str = n := by
  have hstr : (mkNs (some p) (some n)).str = p ++ 58 :: n := by
    cases p with
    | nil => exact absurd rfl hp
    | cons a as => cases n with
      | nil => exact absurd rfl hn
      | cons b bs => simp [mkNs, Key.str]
  have hnocolon : ∀ e ∈ BS.Gen.c17DefaultCdataListAttributes, ∀ a ∈ e.2, a.contains 58 = false := by decide +kernel
  refine ⟨hstr, ?_, ?_, ?_⟩
  · rw [hstr]
    apply isMulti_false_of_not_listed
    intro e he hm
    have := hnocolon e he _ hm
    simp at this
  · cases n with
    | nil => exact absurd rfl hn
    | cons b bs => simp [mkNs, Key.str]
  · cases n with
    | nil => exact absurd rfl hn
    | cons b bs => simp [mkNs, Key.str]

example : isMulti BS.Gen.c17DefaultCdataListAttributes pyLower (ofS "svg:a") (ofS "rel") = false ∧
    isMulti BS.Gen.c17DefaultCdataListAttributes pyLower (ofS "svg:a") (ofS "class") = true := by decide +kernel

/-- A builder that defines no table of its own (the base `TreeBuilder` default, which XML builders use) splits nothing,
    in any dictionary class; the generated base table is empty. -/
theorem base_table_splits_nothing (md : Nat) (lower : PStr → PStr) (lc : Nat) (cls : DictClass) (tag : PStr) (d : Items) :
    BS.Gen.c17BaseCdataListAttributes = [] ∧
    replaceCdataList md (some BS.Gen.c17BaseCdataListAttributes) lower lc cls tag d = .ok d :=
  ⟨by decide, (none_disables md lower lc cls tag d).2⟩

/-! ## duplicate policy × splitting -/

/-- For **any** duplicate policy (callables included): if the policy's loop leaves a dictionary of strings and lists,
    the tag holds exactly `replaceSpec` of it — the policy decides the surviving value, the table decides the split,
    and a value the handler already turned into a list is left alone. -/
theorem parsed_start_tag_any_policy (md : Nat) (lower : PStr → PStr) (m : CdataMap) (hm : m ≠ []) (cls : DictClass)
    (lc : Nat) (x : Bool) (onDup : OnDup) (name : PStr) (attrs : List (PStr × Option PStr)) (d : Items)
    (hloop : startTagLoop md cls onDup attrs [] = .ok d) (hnd : (keys d).Nodup) (hd : ∀ p ∈ d, StrOrList p.2) :
    parseStartTag md lower ⟨some m, cls, lc, x⟩ onDup name attrs
      = .ok ⟨cls, lc, replaceSpec (some m) lower lc name d, x⟩ := by
  have htruthy : truthyMap (some m) = true := by cases m <;> simp_all [truthyMap]
  simp only [parseStartTag, hloop, Res.bind, tagInit, htruthy, if_true]
  rw [replaceCdataList_strOrList md (some m) lower lc cls name d hnd hd]

/-- `ignore` × splitting: every attribute holds the tokens (if covered) or the text (if not) of its **first** value. -/
theorem parsed_start_tag_ignore (md : Nat) (lower : PStr → PStr) (m : CdataMap) (hm : m ≠ []) (cls : DictClass)
    (lc : Nat) (x : Bool) (name : PStr) (attrs : List (PStr × Option PStr)) :
    ∃ t, parseStartTag md lower ⟨some m, cls, lc, x⟩ .ignore name attrs = .ok t ∧
      keys t.items = dedupAcc [] (attrs.map (·.1)) ∧
      ∀ k, dictGet t.items k = (valsOf attrs k).head?.map
        (fun s => if isMulti m lower name k then .list lc (splitWs s) else .str s) := by
  obtain ⟨d, h1, h2, h3⟩ := dup_policy_ignore md cls attrs
  have hnd : (keys d).Nodup := by rw [h3]; exact nodup_dedupAcc [] _ (by simp)
  have hstr : ∀ p ∈ d, StrOrList p.2 := by
    intro p hp
    have := dictGet_of_mem d hnd p hp
    rw [h2 p.1] at this
    cases hl : (valsOf attrs p.1).head? with
    | none => simp [hl] at this
    | some s => simp [hl] at this; rw [← this]; trivial
  refine ⟨_, parsed_start_tag_any_policy md lower m hm cls lc x .ignore name attrs d h1 hnd hstr, ?_, ?_⟩
  · rw [(custom_map_exact m lower lc name d).1, h3]
  · intro k
    rw [(custom_map_exact m lower lc name d).2 k, h2 k]
    cases (valsOf attrs k).head? with
    | none => rfl
    | some s => cases isMulti m lower name k <;> simp [splitVal]

/-- the accumulating handler × splitting: an attribute given once is split (if covered) as usual; an attribute given
    several times holds the plain list of its **raw** values — the raw values are not split again, even when the
    attribute is multi-valued (so `class="a b" class="c"` is stored as `["a b", "c"]`). -/
theorem parsed_start_tag_accumulate (md : Nat) (lower : PStr → PStr) (m : CdataMap) (hm : m ≠ []) (cls : DictClass)
    (lc : Nat) (x : Bool) (name : PStr) (attrs : List (PStr × Option PStr)) :
    ∃ t, parseStartTag md lower ⟨some m, cls, lc, x⟩ (.callable accumulate) name attrs = .ok t ∧
      keys t.items = dedupAcc [] (attrs.map (·.1)) ∧
      ∀ k, dictGet t.items k = match valsOf attrs k with
        | [] => none
        | [s] => some (if isMulti m lower name k then .list lc (splitWs s) else .str s)
        | vs => some (.list 0 vs) := by
  obtain ⟨d, h1, h2, h3⟩ := dup_policy_callable_accumulate md cls attrs
  have hnd : (keys d).Nodup := by rw [h3]; exact nodup_dedupAcc [] _ (by simp)
  have hstr : ∀ p ∈ d, StrOrList p.2 := by
    intro p hp
    have := dictGet_of_mem d hnd p hp
    rw [h2 p.1] at this
    match hv : valsOf attrs p.1 with
    | [] => simp [hv] at this
    | [s] => simp [hv] at this; rw [← this]; trivial
    | a :: b :: l => simp [hv] at this; rw [← this]; trivial
  refine ⟨_, parsed_start_tag_any_policy md lower m hm cls lc x _ name attrs d h1 hnd hstr, ?_, ?_⟩
  · rw [(custom_map_exact m lower lc name d).1, h3]
  · intro k
    rw [(custom_map_exact m lower lc name d).2 k, h2 k]
    match valsOf attrs k with
    | [] => rfl
    | [s] => cases isMulti m lower name k <;> simp [splitVal]
    | a :: b :: l => cases isMulti m lower name k <;> simp [splitVal]

example : parseStartTag 0 pyLower ⟨some BS.Gen.c17DefaultCdataListAttributes, .plain, 1, false⟩ (.callable accumulate)
    (ofS "p") [(ofS "class", some (ofS "a b")), (ofS "id", some (ofS "x y")), (ofS "class", some (ofS "c"))]
    = .ok ⟨.plain, 1, [(ofS "class", .list 0 [ofS "a b", ofS "c"]), (ofS "id", .str (ofS "x y"))], false⟩ := by
  decide +kernel

/-! ## written back -/

/-- For **every** list of strings (tokens or not): joining by single spaces and splitting again gives the tokens of the
    elements, in order. For a list of tokens that is the list itself (`split_join_tokens`); for the accumulated raw values
    above it is the flattened token list. -/
theorem written_back_and_reread (l : List PStr) : splitWs (joinSp l) = l.flatMap splitWs :=
  splitWs_joinSp_flat l

example : splitWs (joinSp [ofS "a b", [], ofS " c"]) = [ofS "a", ofS "b", ofS "c"] := by decide +kernel

/-- `Formatter.attributes`: every attribute exactly once (a permutation of the dictionary), in key order, and — only
    with `empty_attributes_are_booleans` — a value equal to `""` turned into `None`; nothing else is touched. -/
theorem formatter_attributes_spec (e : Bool) (items : Items) :
    ((fmtAttributes e items).map (·.1)).Perm (keys items) ∧ SortedAdj (fmtAttributes e items) ∧
    ∀ p, p ∈ fmtAttributes e items ↔
      ∃ q ∈ items, p = (q.1, if e && q.2 == PyVal.str [] then PyVal.none else q.2) := by
  refine ⟨?_, sortItems_sorted _, mem_fmtAttributes e items⟩
  unfold fmtAttributes
  have := (sortItems_perm (items.map fun p => (p.1, if e && p.2 == PyVal.str [] then PyVal.none else p.2))).map (·.1)
  have hk : (items.map fun p => (p.1, if e && p.2 == PyVal.str [] then PyVal.none else p.2)).map (·.1) = keys items := by
    simp only [keys, List.map_map]; rfl
  rw [hk] at this
  exact this

/-- The registered formatters: `empty_attributes_are_booleans` is set for `html5` and `html5-4.12` and for no other
    (whole generated registry). -/
theorem registry_empty_attribute_flags :
    ∀ f ∈ BS.Gen.c17FormatterRegistry,
      f.2.2 = (f.1 == false && (f.2.1 == ofS "html5" || f.2.1 == ofS "html5-4.12")) := by decide +kernel

/-- One attribute, for every value: `None` → the bare key; a list or tuple → `key="…"` with the elements joined by
    single spaces; a string → itself; `True`/`False` → `True`/`False`; numbers → their `str`; then entity substitution and
    quoting. An empty string is a bare key exactly under `empty_attributes_are_booleans`. -/
theorem format_attribute_spec (md : Nat) (f : FmtCfg) (k : PStr) :
    formatAttr md f (k, .none) = .ok k ∧
    (∀ c l, formatAttr md f (k, .list c l) = .ok (k ++ 61 :: quotedAttributeValue (f.subst (joinSp l)))) ∧
    (∀ l, formatAttr md f (k, .tuple l) = .ok (k ++ 61 :: quotedAttributeValue (f.subst (joinSp l)))) ∧
    (∀ s, formatAttr md f (k, .str s) = .ok (k ++ 61 :: quotedAttributeValue (f.subst s))) ∧
    (∀ t z, formatAttr md f (k, .float t z) = .ok (k ++ 61 :: quotedAttributeValue (f.subst t))) ∧
    (∀ b, formatAttr md f (k, .bool b) = .ok (k ++ 61 :: quotedAttributeValue (f.subst (if b then trueStr else falseStr)))) ∧
    (∀ i, ¬ tooBig md (.int i) → formatAttr md f (k, .int i) = .ok (k ++ 61 :: quotedAttributeValue (f.subst (intStr i)))) ∧
    (∀ i, tooBig md (.int i) → formatAttr md f (k, .int i) = .valueError) ∧
    fmtAttributes true [(k, .str [])] = [(k, .none)] ∧ fmtAttributes false [(k, .str [])] = [(k, .str [])] := by
  refine ⟨rfl, fun _ _ => rfl, fun _ => rfl, fun _ => rfl, fun _ _ => rfl, fun _ => rfl, ?_, ?_, ?_, ?_⟩
  · intro i h
    simp only [tooBig] at h
    simp [formatAttr, renderVal, pyStrInt, h]
  · intro i h
    simp only [tooBig] at h
    simp [formatAttr, renderVal, pyStrInt, h]
  · simp [fmtAttributes, sortItems, insertItem]
  · simp [fmtAttributes, sortItems, insertItem]

/-- the quoting never lets the value end the attribute early: the result is the body between two equal quote
    characters, and that quote character does not occur in the body -/
theorem quoting_delimits (v : PStr) :
    ∃ q body, (q = 34 ∨ q = 39) ∧ quotedAttributeValue v = q :: body ++ [q] ∧ q ∉ body := quoted_delimits v

example : quotedAttributeValue (ofS "a\"b'c") = ofS "\"a&quot;b'c\"" ∧ quotedAttributeValue (ofS "a\"b") = ofS "'a\"b'" ∧
    quotedAttributeValue (ofS "it's") = ofS "\"it's\"" := by decide +kernel

/-- the attribute string: nothing for a tag without attributes, otherwise a blank followed by one entry per attribute
    separated by single blanks -/
theorem attribute_string_shape (md : Nat) (f : FmtCfg) (items : Items) (out : PStr)
    (h : attributeString md f items = .ok out) :
    (items = [] → out = []) ∧
    (items ≠ [] → ∃ l, l.length = items.length ∧ out = 32 :: joinSp l ∧
        formatAttrs md f (fmtAttributes f.emptyBool items) = .ok l) := by
  simp only [attributeString] at h
  cases hl : formatAttrs md f (fmtAttributes f.emptyBool items) with
  | valueError => simp [hl, Res.bind] at h
  | ok l =>
    simp only [hl, Res.bind, Res.ok.injEq] at h
    have hlen : l.length = items.length := by
      rw [length_formatAttrs md f _ l hl]
      have := ((formatter_attributes_spec f.emptyBool items).1).length_eq
      simpa [keys] using this
    constructor
    · intro he; subst he
      have : l = [] := by simpa using hlen
      subst this; simpa using h.symm
    · intro hne
      refine ⟨l, hlen, ?_, rfl⟩
      have : l ≠ [] := by
        intro hl0; subst hl0
        simp only [List.length_nil] at hlen
        exact hne (List.length_eq_zero_iff.mp hlen.symm)
      cases l with
      | nil => exact absurd rfl this
      | cons a as => simpa using h.symm

example : attributeString 0 ⟨true, id, fun _ => []⟩
    [(ofS "id", .str []), (ofS "class", .list 1 [ofS "a", ofS "b"]), (ofS "checked", .none)]
    = .ok (ofS " checked class=\"a b\" id") := by decide +kernel

/-- Parsed, then written back (any dictionary class, any list class, replace policy, any formatter): every attribute of
    the start tag comes out once; a multi-valued one as `k="…"` with its tokens separated by single spaces (whatever
    whitespace the source had), any other one with its last value verbatim (before entity substitution and quoting);
    nothing raises. -/
theorem parsed_then_rendered (md : Nat) (lower : PStr → PStr) (m : CdataMap) (hm : m ≠ []) (cls : DictClass)
    (lc : Nat) (x : Bool) (name : PStr) (attrs : List (PStr × Option PStr)) (f : FmtCfg) :
    ∃ t, parseStartTag md lower ⟨some m, cls, lc, x⟩ .replace name attrs = .ok t ∧
      ∀ k v, dictGet t.items k = some v →
        ∃ s, (valsOf attrs k).getLast? = some s ∧
          formatAttr md f (k, v) = .ok (k ++ 61 :: quotedAttributeValue
            (f.subst (if isMulti m lower name k then joinSp (splitWs s) else s))) := by
  obtain ⟨t, h1, _, _, _, h5⟩ := parsed_start_tag md lower m hm cls lc x name attrs
  refine ⟨t, h1, fun k v hv => ?_⟩
  rw [h5 k] at hv
  cases hl : (valsOf attrs k).getLast? with
  | none => simp [hl] at hv
  | some s =>
    refine ⟨s, rfl, ?_⟩
    simp only [hl, Option.map_some, Option.some.injEq] at hv
    subst hv
    cases isMulti m lower name k <;> simp [formatAttr, renderVal]

example : attributeString 0 ⟨false, id, fun _ => []⟩
    [(ofS "rel", .list 1 (splitWs (ofS " y\t\tz "))), (ofS "id", .str (ofS "p  q"))]
    = .ok (ofS " id=\"p  q\" rel=\"y z\"") := by decide +kernel

/-! ## reading and deleting -/

/-- `get_attribute_list` always gives a list: the stored list itself for a multi-valued attribute; `[value]` in the
    tag's list class for a string; an empty list of the tag's list class when the attribute is missing (no default) or
    holds `None`. -/
theorem get_attribute_list_spec (t : TagAttrs) (k : PStr) :
    (dictGet t.items k = none → getAttributeList t k .none = .strs t.listCls []) ∧
    (dictGet t.items k = some .none → getAttributeList t k .none = .strs t.listCls []) ∧
    (∀ c l, dictGet t.items k = some (.list c l) → getAttributeList t k .none = .strs c l) ∧
    (∀ s, dictGet t.items k = some (.str s) → getAttributeList t k .none = .strs t.listCls [s]) ∧
    (∀ c l, dictGet t.items k = none → getAttributeList t k (.list c l) = .strs c l) := by
  refine ⟨?_, ?_, ?_, ?_, ?_⟩ <;> intros <;> simp_all [getAttributeList, tagGet]

/-- on a parsed tag (any dictionary class, replace policy): the tokens of the last value for a multi-valued attribute,
    the one-element list of the last value otherwise, the empty list for an attribute that does not occur -/
theorem get_attribute_list_parsed (md : Nat) (lower : PStr → PStr) (m : CdataMap) (hm : m ≠ []) (cls : DictClass)
    (lc : Nat) (x : Bool) (name : PStr) (attrs : List (PStr × Option PStr)) :
    ∃ t, parseStartTag md lower ⟨some m, cls, lc, x⟩ .replace name attrs = .ok t ∧
      ∀ k, getAttributeList t k .none = match (valsOf attrs k).getLast? with
        | none => .strs lc []
        | some s => if isMulti m lower name k then .strs lc (splitWs s) else .strs lc [s] := by
  obtain ⟨t, h1, _, h3, _, h5⟩ := parsed_start_tag md lower m hm cls lc x name attrs
  refine ⟨t, h1, fun k => ?_⟩
  simp only [getAttributeList, tagGet, h5 k, h3]
  cases (valsOf attrs k).getLast? with
  | none => rfl
  | some s => cases isMulti m lower name k <;> rfl

/-- `del tag[k]`: the attribute is gone, nothing else changes (value or order), deleting a missing attribute or
    deleting twice is harmless. -/
theorem del_spec (t : TagAttrs) (k : PStr) :
    hasAttr (tagDel t k) k = false ∧ (∀ d, tagGet (tagDel t k) k d = d) ∧
    (∀ k' d, k' ≠ k → tagGet (tagDel t k) k' d = tagGet t k' d ∧ hasAttr (tagDel t k) k' = hasAttr t k') ∧
    keys (tagDel t k).items = (keys t.items).filter (fun x => !(x == k)) ∧
    tagDel (tagDel t k) k = tagDel t k ∧ (hasAttr t k = false → tagDel t k = t) := by
  refine ⟨by simp [hasAttr_tagDel], fun d => tagDel_get_self t k d, ?_, keys_dictDel _ _, ?_, ?_⟩
  · intro k' d h
    have : (k' == k) = false := by simpa using h
    exact ⟨tagDel_get_other t k k' d h, by simp [hasAttr_tagDel, this]⟩
  · simp [tagDel, dictDel_idem]
  · intro h
    have hall : ∀ p ∈ t.items, (!(p.1 == k)) = true := by
      intro p hp
      cases hpk : p.1 == k with
      | false => rfl
      | true =>
        have : dictHas t.items k = true := by
          simp only [dictHas, List.any_eq_true]; exact ⟨p, hp, hpk⟩
        simp [hasAttr, this] at h
    have : dictDel t.items k = t.items := List.filter_eq_self.mpr hall
    cases t; simp_all [tagDel]

/-- in a history, `del tag_i[k]` touches that attribute only -/
theorem del_leaves_others_unchanged (md : Nat) (lower : PStr → PStr) (b : BuilderCfg) (st : Hist) (i : Nat) (k : PStr) :
    ∃ st', histStep md lower b st (.del i k) = .ok st' ∧ st'.length = st.length ∧
      (∀ j k', (j ≠ i ∨ k' ≠ k) → attrAt st' j k' = attrAt st j k') ∧ attrAt st' i k = none := by
  refine ⟨_, rfl, length_modifyAt _ _ _, ?_, ?_⟩
  · intro j k' h
    simp only [attrAt, getElem?_modifyAt]
    by_cases hj : j = i
    · subst hj
      have hk : k' ≠ k := by rcases h with h | h; exact absurd rfl h; exact h
      cases st[j]? with
      | none => simp
      | some p => simp [dictGet_del_other _ _ _ hk]
    · simp [hj]
  · simp only [attrAt, getElem?_modifyAt, if_true]
    cases st[i]? with
    | none => simp
    | some p => simp [dictGet_del_self]

/-- A copy (`copy_self`) holds the same kind of dictionary as the original, keeps `is_xml`, uses the default list
    class, and its values are the original's values assigned through that dictionary class (lists in new lists); it
    fails only if that assignment fails (an HTML/XML container meeting an int beyond the digit limit). -/
theorem copy_keeps_container (md : Nat) (lower : PStr → PStr) (b : BuilderCfg) (st : Hist) (i : Nat)
    (n : PStr) (t : TagAttrs) (hi : st[i]? = some (n, t)) :
    (∀ st', histStep md lower b st (.copy i) = .ok st' →
      ∃ t', st' = st ++ [(n, t')] ∧ t'.cls = t.cls ∧ t'.listCls = 1 ∧ t'.isXml = t.isXml ∧
        copyInto md t.cls t.items [] = .ok t'.items) ∧
    (histStep md lower b st (.copy i) = .valueError ↔ copyInto md t.cls t.items [] = .valueError) := by
  simp only [histStep, hi, copyTag, tagInit]
  cases hc : copyInto md t.cls t.items [] with
  | valueError => simp [Res.bind]
  | ok d' =>
    refine ⟨?_, by simp [Res.bind]⟩
    intro st' h
    simp only [Res.bind, Res.ok.injEq] at h
    exact ⟨_, h.symm, rfl, rfl, rfl, rfl⟩

/-- a copy of a tag whose *plain* dictionary holds anything at all never fails and holds exactly the same items -/
theorem copy_of_plain_dict_never_fails (md : Nat) (lower : PStr → PStr) (n : PStr) (lc : Nat) (x : Bool) (d : Items)
    (hnd : (keys d).Nodup) : copyTag md lower n ⟨.plain, lc, d, x⟩ = .ok ⟨.plain, 1, d, x⟩ := by
  have := copyInto_plain md d [] (by simpa using hnd)
  simp only [List.nil_append] at this
  simp [copyTag, tagInit, this, Res.bind]

/-- Documentation of the defect repaired by fixes/C17-copy-no-constructor-pass.diff: with the constructor still handed
    the attributes, copying a tag whose plain dictionary holds an int beyond the digit limit raised `ValueError` (the
    discarded HTML container called `str()` on it), while the repaired copy keeps the value. -/
theorem copy_first_pass_raises_old :
    copyTagOld 2 pyLower (ofS "a") ⟨.plain, 1, [(ofS "n", .int 100)], false⟩ = .valueError ∧
    copyTag 2 pyLower (ofS "a") ⟨.plain, 1, [(ofS "n", .int 100)], false⟩
      = .ok ⟨.plain, 1, [(ofS "n", .int 100)], false⟩ := by decide +kernel

/-- … and for a tag as a parser leaves it (distinct keys, strings and lists) the copy's attributes are exactly the
    original's, whatever the dictionary class. -/
theorem copy_of_parsed_tag_identical (md : Nat) (lower : PStr → PStr) (n : PStr) (t : TagAttrs)
    (hnd : (keys t.items).Nodup) (hd : ∀ p ∈ t.items, StrOrList p.2) :
    copyTag md lower n t = .ok { t with listCls := 1 } := by
  have h1 : ∀ c, copyInto md c t.items [] = .ok t.items := by
    intro c
    have := copyInto_strOrList md c t.items [] (by simpa using hnd) (fun p hp => Or.inl (hd p hp))
    simpa using this
  simp [copyTag, tagInit, h1, Res.bind]

example : copyTag 0 pyLower (ofS "p") ⟨.plain, 2, [(ofS "class", .list 2 [ofS "a"]), (ofS "k", .int 0)], false⟩
    = .ok ⟨.plain, 1, [(ofS "class", .list 2 [ofS "a"]), (ofS "k", .int 0)], false⟩ := by decide +kernel

/-- A copy is **identical** to the original (up to the list class of the tag) whenever every value is one its
    dictionary class stores unchanged — which is the case for: any value in a plain `AttributeDict`; strings and lists
    in any class; everything an `HTMLAttributeDict` can hold except `None`; everything an `XMLAttributeDict` can hold
    (so, with `containers_hold_no_numbers`, for every dictionary produced by assignments). -/
theorem copy_identical_when_values_settled (md : Nat) (lower : PStr → PStr) (n : PStr) (t : TagAttrs)
    (hnd : (keys t.items).Nodup)
    (hd : ∀ p ∈ t.items, t.cls = .plain ∨ StrOrList p.2 ∨ (t.cls = .html ∧ HtmlStorable p.2 ∧ p.2 ≠ .none) ∨
      (t.cls = .xml ∧ XmlStorable p.2)) :
    copyTag md lower n t = .ok { t with listCls := 1 } := by
  have hfix : ∀ p ∈ t.items, IsFixed md t.cls p.2 := by
    intro p hp
    rcases hd p hp with h | h | ⟨h, h1, h2⟩ | ⟨h, h1⟩
    · rw [h]; exact isFixed_plain md _
    · exact isFixed_strOrList md _ _ h
    · rw [h]; exact isFixed_html md _ h1 h2
    · rw [h]; exact isFixed_xml md _ h1
  have := copyInto_fixed md t.cls t.items [] (by simpa using hnd) hfix
  simp only [List.nil_append] at this
  simp [copyTag, tagInit, this, Res.bind]

example : copyTag 0 pyLower (ofS "a") ⟨.xml, 2, [(ofS "k", .bool false), (ofS "c", .list 2 [])], true⟩
    = .ok ⟨.xml, 1, [(ofS "k", .bool false), (ofS "c", .list 2 [])], true⟩ :=
  copy_identical_when_values_settled 0 pyLower _ _ (by decide) (by
    intro p hp; simp at hp
    rcases hp with rfl | rfl
    · exact Or.inr (Or.inr (Or.inr ⟨rfl, trivial⟩))
    · exact Or.inr (Or.inl trivial))

/-- `soup.new_tag(name, attrs=a, **kw)`: the attributes go into the builder's dictionary class **without coercion**
    (`dict(**kw)`, `.update(a)`: `a` wins over a keyword of the same name, which keeps its place), and the tag then
    holds `replaceSpec` of that dictionary — for the default plain class whatever the values are, for any class when the
    values are strings or lists. -/
theorem new_tag_spec (md : Nat) (lower : PStr → PStr) (m : CdataMap) (hm : m ≠ []) (cls : DictClass) (lc : Nat)
    (x : Bool) (name : PStr) (kw a : Items)
    (hv : cls = .plain ∨ ∀ p ∈ rawUpdate (rawUpdate [] kw) a, StrOrList p.2) :
    newTag md lower ⟨some m, cls, lc, x⟩ name kw (some a)
      = .ok ⟨cls, lc, replaceSpec (some m) lower lc name (rawUpdate (rawUpdate [] kw) a), x⟩ ∧
    ∀ k, dictGet (rawUpdate (rawUpdate [] kw) a) k = match dictGet a.reverse k with
      | some v => some v
      | none => dictGet kw.reverse k := by
  have hnd : (keys (rawUpdate (rawUpdate [] kw) a)).Nodup :=
    keys_rawUpdate_nodup _ _ (keys_rawUpdate_nodup _ _ (by simp [keys]))
  have htruthy : truthyMap (some m) = true := by cases m <;> simp_all [truthyMap]
  constructor
  · simp only [newTag, tagInit, htruthy, if_true]
    rcases hv with h | h
    · subst h
      rw [replaceCdataList_plain md (some m) lower lc name _ hnd]; rfl
    · rw [replaceCdataList_strOrList md (some m) lower lc cls name _ hnd h]; rfl
  · intro k
    rw [dictGet_rawUpdate, dictGet_rawUpdate]
    cases dictGet a.reverse k with
    | some v => rfl
    | none => cases dictGet kw.reverse k <;> simp [dictGet]

example : newTag 0 pyLower ⟨some BS.Gen.c17DefaultCdataListAttributes, .plain, 1, false⟩ (ofS "td")
    [(ofS "id", .int 0), (ofS "headers", .str (ofS "k"))] (some [(ofS "headers", .str (ofS "a  b"))])
    = .ok ⟨.plain, 1, [(ofS "id", .int 0), (ofS "headers", .list 1 [ofS "a", ofS "b"])], false⟩ := by decide +kernel

/-! ## the regex engine's view, and the builder's options -/

/-- Refinement: the scanner `splitWs` computes what `re.findall(r"\S+", s)` computes when it is read as the engine
    proceeds — at each position a greedy match attempt, otherwise one character on — for every string. All the laws
    above therefore hold of that reading too. -/
theorem split_is_regex_findall (s : PStr) : findallNonWs s = splitWs s := findall_eq_splitWs s

example : findallNonWs (ofS "  ab \t c") = [ofS "ab", ofS "c"] := by decide +kernel

/-- `multi_valued_attributes`: leaving it out means the builder class's table, `None` disables splitting, a map replaces
    the table — nothing is merged with the default; the dictionary and list classes default to the plain ones. With the
    resulting configuration the facts above apply: `none_disables`, `custom_map_exact`, `parsed_start_tag`. -/
theorem builder_options_meaning (dflt m : CdataMap) (x : Bool) (dc : Option DictClass) (lc : Option Nat) :
    (mkBuilder dflt x .useDefault dc lc).cdata = some dflt ∧
    (mkBuilder dflt x .none dc lc).cdata = none ∧
    (mkBuilder dflt x (.map m) dc lc).cdata = some m ∧
    (mkBuilder dflt x .useDefault none none).dictCls = .plain ∧ (mkBuilder dflt x .useDefault none none).listCls = 1 ∧
    (∀ c, (mkBuilder dflt x .useDefault (some c) lc).dictCls = c) ∧
    (∀ c, (mkBuilder dflt x .useDefault dc (some c)).listCls = c) ∧
    (mkBuilder dflt x .useDefault dc lc).isXml = x :=
  ⟨rfl, rfl, rfl, rfl, rfl, fun _ => rfl, fun _ => rfl, rfl⟩

/-- `on_duplicate_attribute`: absent, `None` and `"replace"` all mean replace; `"ignore"` ignore; a callable is called;
    any other string is not a policy (Python raises `TypeError` at the first repeated attribute). -/
theorem on_duplicate_setting_meaning (f : Items → PStr → PStr → Items) (s : PStr) :
    resolveOnDup .absent = some .replace ∧ resolveOnDup .pyNone = some .replace ∧
    resolveOnDup (.str replaceStr) = some .replace ∧ resolveOnDup (.str ignoreStr) = some .ignore ∧
    (s ≠ replaceStr → s ≠ ignoreStr → resolveOnDup (.str s) = none) ∧
    (∃ g, resolveOnDup (.callable f) = some (.callable g) ∧ g = f) := by
  refine ⟨rfl, rfl, by simp [resolveOnDup, replaceStr, ignoreStr], by simp [resolveOnDup, ignoreStr], ?_, ⟨f, rfl, rfl⟩⟩
  intro h1 h2
  have e1 : (s == ignoreStr) = false := by simpa using h2
  have e2 : (s == replaceStr) = false := by simpa using h1
  simp [resolveOnDup, e1, e2]

example : resolveOnDup (.str [82, 101, 112, 108, 97, 99, 101]) = none := by
  simp [resolveOnDup, replaceStr, ignoreStr]

/-- `on_duplicate_attribute` is consulted for repeated attributes only: on a start tag whose attribute names are all
    different every setting — replace, ignore, any callable, even a string that is no policy — gives the same tag. -/
theorem policy_irrelevant_without_repeats (md : Nat) (lower : PStr → PStr) (b : BuilderCfg) (p1 p2 : OnDup)
    (a : OnDupArg) (name : PStr) (attrs : List (PStr × Option PStr)) (h : hasDupKey (attrs.map (·.1)) = false) :
    parseStartTag md lower b p1 name attrs = parseStartTag md lower b p2 name attrs ∧
    parseStartTagArg md lower b a name attrs = some (parseStartTag md lower b .replace name attrs) := by
  have hnd := hasDupKey_false_nodup _ h
  have hl : ∀ q1 q2, startTagLoop md b.dictCls q1 attrs [] = startTagLoop md b.dictCls q2 attrs [] :=
    fun q1 q2 => startTagLoop_nodup md b.dictCls q1 q2 attrs [] (by simpa [keys] using hnd)
  refine ⟨by simp only [parseStartTag, hl p1 p2], ?_⟩
  unfold parseStartTagArg
  cases hr : resolveOnDup a with
  | none => simp [h]
  | some p => simp only [parseStartTag, hl p .replace]

example : hasDupKey ([(ofS "id", some (ofS "x")), (ofS "class", none)].map (·.1)) = false := by decide

/-- … and a string that is neither `"replace"` nor `"ignore"` fails (`TypeError`) exactly when an attribute repeats. -/
theorem bad_policy_string_fails_iff_repeat (md : Nat) (lower : PStr → PStr) (b : BuilderCfg) (s : PStr)
    (h1 : s ≠ replaceStr) (h2 : s ≠ ignoreStr) (name : PStr) (attrs : List (PStr × Option PStr)) :
    parseStartTagArg md lower b (.str s) name attrs = none ↔ hasDupKey (attrs.map (·.1)) = true := by
  have hr := (on_duplicate_setting_meaning (fun d _ _ => d) s).2.2.2.2.1 h1 h2
  unfold parseStartTagArg
  rw [hr]
  cases hasDupKey (attrs.map (·.1)) <;> simp

/-- The option has two routes, the builder keyword and `parser_kwargs`: a policy given through `parser_kwargs` alone is
    the policy in force (it is not overwritten by the absent keyword); a keyword that is passed wins over it. -/
theorem on_duplicate_routes (a b : OnDupArg) :
    effectiveOnDup none (some a) = a ∧ effectiveOnDup (some a) none = a ∧ effectiveOnDup (some a) (some b) = a ∧
    effectiveOnDup none none = .absent := ⟨rfl, rfl, rfl, rfl⟩

/-- … so `ignore` given through `parser_kwargs` keeps the first value of every repeated attribute, exactly as through
    the keyword (any start tag, any builder configuration). -/
theorem parser_kwargs_policy_decides (md : Nat) (lower : PStr → PStr) (b : BuilderCfg) (name : PStr)
    (attrs : List (PStr × Option PStr)) :
    parseStartTagArg md lower b (effectiveOnDup none (some (.str ignoreStr))) name attrs
      = some (parseStartTag md lower b .ignore name attrs) ∧
    parseStartTagArg md lower b (effectiveOnDup none (some (.callable accumulate))) name attrs
      = some (parseStartTag md lower b (.callable accumulate) name attrs) := by
  constructor
  · simp [effectiveOnDup, parseStartTagArg, resolveOnDup, ignoreStr]
  · simp [effectiveOnDup, parseStartTagArg, resolveOnDup]

/-- Builders that are handed one and the same caller-owned `parser_kwargs` dictionary do not influence each other: the
    setting of the i-th builder is determined by its own keyword and the dictionary as the caller wrote it. -/
theorem shared_parser_kwargs_independent (pk : Option OnDupArg) (kws : List (Option OnDupArg)) (i : Nat)
    (hi : i < kws.length) :
    (buildersSharing pk kws).length = kws.length ∧
    (buildersSharing pk kws)[i]? = some (effectiveOnDup kws[i] pk) := by
  simp [buildersSharing, hi]

/-- Documentation of the defect repaired by fixes/C17-parser-kwargs-dict-shared.diff: with the unrepaired constructor a
    builder given `on_duplicate_attribute="ignore"` left that entry in the caller's dictionary, and the next builder —
    given no policy at all — ignored duplicates too (first value `x` survives instead of the last, `z`). -/
theorem shared_parser_kwargs_leaked_old :
    (buildersSharingOld none [some (.str ignoreStr), none]).map
        (fun a => (parseStartTagArg 0 pyLower ⟨none, .plain, 1, false⟩ a [112]
          [([105], some [120]), ([105], some [122])]).map (fun r => match r with
            | .ok t => t.items
            | .valueError => []))
      = [some [([105], .str [120])], some [([105], .str [120])]] ∧
    (buildersSharing none [some (.str ignoreStr), none]).map
        (fun a => (parseStartTagArg 0 pyLower ⟨none, .plain, 1, false⟩ a [112]
          [([105], some [120]), ([105], some [122])]).map (fun r => match r with
            | .ok t => t.items
            | .valueError => []))
      = [some [([105], .str [120])], some [([105], .str [122])]] := by decide +kernel

/-- Whatever a formatter's own `attributes()` hands back (`sel`: any order, any selection of pairs), every pair is
    rendered by `_format_tag` itself: one entry per pair in that order, a list or tuple value joined by single spaces. -/
theorem custom_attributes_still_joined (md : Nat) (f : FmtCfg) (sel : Items) (l : List PStr)
    (h : formatAttrs md f sel = .ok l) :
    l.length = sel.length ∧
    ∀ i (hi : i < sel.length) (hl : i < l.length), formatAttr md f sel[i] = .ok l[i] := by
  induction sel generalizing l with
  | nil => simp only [formatAttrs, Res.ok.injEq] at h; subst h; exact ⟨rfl, fun i hi => absurd hi (by simp)⟩
  | cons p ps ih =>
    simp only [formatAttrs] at h
    cases h1 : formatAttr md f p with
    | valueError => simp [h1, Res.bind] at h
    | ok a =>
      cases h2 : formatAttrs md f ps with
      | valueError => simp [h1, h2, Res.bind] at h
      | ok as =>
        simp only [h1, h2, Res.bind, Res.ok.injEq] at h
        subst h
        obtain ⟨hlen, hget⟩ := ih as h2
        refine ⟨by simp [hlen], ?_⟩
        intro i hi hl
        cases i with
        | zero => simpa using h1
        | succ j =>
          simp only [List.getElem_cons_succ]
          exact hget j (by simpa using hi) (by simpa using hl)

example : attributeStringSel 0 ⟨false, id, fun _ => []⟩
    [(ofS "z", .str (ofS "1")), (ofS "class", .list 1 [ofS "b", ofS "a"]), (ofS "rel", .tuple [ofS "x", ofS "y"])]
    = .ok (ofS " z=\"1\" class=\"b a\" rel=\"x y\"") := by decide +kernel

/-! ## non-vacuity of the hypotheses used above -/

example : splitWs (ofS " x\tyz ") = [ofS "x", ofS "yz"] :=
  split_is_the_maximal_runs (ofS " x\tyz ") [32] [([120], [9]), ([121, 122], [32])] (by simp [AllWs]; decide)
    (by simp [GoodItems, Tok, AllWs]; decide) (by decide)

example : splitWs (joinSp [ofS "a", ofS "bc"]) = [ofS "a", ofS "bc"] :=
  split_join_tokens _ (by
    intro t ht
    simp at ht
    rcases ht with rfl | rfl <;> exact ⟨by decide, by decide⟩)

example : dictGet (replaceSpec (some BS.Gen.c17DefaultCdataListAttributes) pyLower 1 (ofS "a")
      [(ofS "rel", .str (ofS "x  y")), (ofS "id", .str (ofS "x  y"))]) (ofS "rel") = some (.list 1 [ofS "x", ofS "y"]) :=
  ((split_iff_covered BS.Gen.c17DefaultCdataListAttributes pyLower 1 (ofS "a")
      [(ofS "rel", .str (ofS "x  y")), (ofS "id", .str (ofS "x  y"))] (ofS "rel") (ofS "x  y") (by decide +kernel)).1).mpr
    (by decide +kernel)

example : dictGet (replaceSpec (some BS.Gen.c17DefaultCdataListAttributes) pyLower 1 (ofS "a")
      [(ofS "rel", .str (ofS "x  y")), (ofS "id", .str (ofS "x  y"))]) (ofS "id") = some (.str (ofS "x  y")) := by
  rw [others_verbatim _ _ _ _ _ _ (by decide +kernel)]; decide +kernel

example : dictGet (replaceSpec (some BS.Gen.c17DefaultCdataListAttributes) pyLower 1 (ofS "p")
      [(ofS "class", .list 0 [ofS "a b"])]) (ofS "class") = some (.list 0 [ofS "a b"]) :=
  list_values_kept _ _ _ _ _ _ _ _ (by decide +kernel)

example : (keys [(ofS "rel", PyVal.str (ofS "x  y")), (ofS "id", .str [])]).Nodup ∧
    ∀ p ∈ [(ofS "rel", PyVal.str (ofS "x  y")), (ofS "id", PyVal.str [])], StrOrList p.2 := by
  refine ⟨by decide, ?_⟩
  intro p hp; simp at hp; rcases hp with rfl | rfl <;> trivial

example : isMulti BS.Gen.c17DefaultCdataListAttributes pyLower (ofS "TH") (ofS "headers") = true :=
  default_table_every_entry_honoured pyLower (ofS "TH") (ofS "headers") (ofS "th", [ofS "headers"])
    (by decide +kernel) (by decide) (Or.inr (by decide +kernel))

example : isMulti BS.Gen.c17DefaultCdataListAttributes pyLower (ofS "a") (mkNs (some (ofS "svg")) (some (ofS "class"))).str
    = false :=
  (prefixed_attributes_never_split pyLower (ofS "a") (ofS "svg") (ofS "class") (by decide) (by decide)).2.1

example : htmlSetOld 4300 [] (.plain [107]) (.int 5) = htmlSet 4300 [] (.plain [107]) (.int 5) :=
  old_agrees_elsewhere _ _ _ _ (Or.inl (by decide))

example : getAttributeList ⟨.plain, 2, [(ofS "id", .str (ofS "x"))], false⟩ (ofS "id") .none = .strs 2 [ofS "x"] :=
  (get_attribute_list_spec ⟨.plain, 2, [(ofS "id", .str (ofS "x"))], false⟩ (ofS "id")).2.2.2.1 _ (by decide)

example : tagDel ⟨.plain, 1, [(ofS "id", .str []), (ofS "k", .int 0)], false⟩ (ofS "id")
    = ⟨.plain, 1, [(ofS "k", .int 0)], false⟩ := by decide

example : histStep 0 pyLower ⟨none, .plain, 1, false⟩ [(ofS "p", ⟨.html, 2, [(ofS "k", .str [])], true⟩)] (.copy 0)
    = .ok [(ofS "p", ⟨.html, 2, [(ofS "k", .str [])], true⟩), (ofS "p", ⟨.html, 1, [(ofS "k", .str [])], true⟩)] := by
  decide +kernel

example : ∀ j, j < 1 → ([(ofS "p", (⟨.plain, 1, [], false⟩ : TagAttrs)), (ofS "a", ⟨.plain, 1, [], false⟩)] : Hist)[j]?
    = ([(ofS "p", ⟨.plain, 1, [], false⟩)] : Hist)[j]? :=
  creation_leaves_earlier_tags_unchanged 0 pyLower ⟨none, .plain, 1, false⟩ [(ofS "p", ⟨.plain, 1, [], false⟩)]
    [(ofS "p", ⟨.plain, 1, [], false⟩), (ofS "a", ⟨.plain, 1, [], false⟩)] (.newTag (ofS "a") [])
    (Or.inr (Or.inl ⟨_, _, rfl⟩)) (by decide +kernel)

end BS.Props.C17
