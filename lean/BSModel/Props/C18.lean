import BSModel.Proofs.SourcePos
import BSModel.Props.TK
/-! # C18 — sourceline/sourcepos give each tag's true position in the input

(1) bs4 passes the tokenizer's position through unchanged on every path, and stores nothing when
`store_line_numbers` is off; (2) the position arithmetic of CPython's `updatepos`, for ANY way the tokenizer may
cut the consumed text into chunks, is the 1-based line / 0-based column of the offset; (3) composed with the model of
CPython's tokenizer (`Model/Tokenizer.lean`, theorems in `Props/TK.lean`, tied to the real `html.parser` by the
"tokenizer-model" stream): for EVERY text, the positions stored for the tags are the line/column of the offsets at which
their start tags' `<` stand. -/
namespace BS.Props.C18
open BS.Adapter BS.Builder BS.SourcePos

/-- the positions the tokenizer reports are passed through unchanged: the start infos the adapter produces are, in
    order, exactly the positions of the start-tag callbacks (`<x>` and `<x/>` alike) when line numbers are stored, and
    `none` for every tag otherwise -/
theorem pos_pass_through (cfg : ACfg) (sevs : List SEv) :
    ((toEvents cfg sevs).2.map (·.pos)) =
      (startPositions sevs).map (fun p => if cfg.storeLines then some p else none) :=
  pos_pass_through_aux cfg sevs ⟨[]⟩

/-- with `store_line_numbers=False` every tag's position is `None` -/
theorem no_positions_when_off (cfg : ACfg) (sevs : List SEv) (h : cfg.storeLines = false) :
    ∀ i ∈ (toEvents cfg sevs).2, i.pos = none := by
  intro i hi
  have := pos_pass_through cfg sevs
  have hm : i.pos ∈ (toEvents cfg sevs).2.map (·.pos) := List.mem_map_of_mem hi
  rw [this] at hm
  simp only [h, Bool.false_eq_true, if_false, List.mem_map] at hm
  obtain ⟨_, _, heq⟩ := hm
  exact heq.symm

/-- one start info per start-tag callback -/
theorem one_info_per_start (cfg : ACfg) (sevs : List SEv) :
    (toEvents cfg sevs).2.length = (startPositions sevs).length := by
  have := congrArg List.length (pos_pass_through cfg sevs)
  simpa using this

/-! ### `updatepos` is the line/column of the offset, for any chunking -/

/-- **any chunking**: consuming the text in any sequence of chunks leaves `getpos()` at the 1-based line and
    0-based column of the end of the consumed text -/
theorem updatepos_any_chunking (chunks : List PStr) :
    posAfter chunks = lineCol chunks.flatten chunks.flatten.length := by
  unfold posAfter
  have : ∀ (cs : List PStr) (a : PStr), cs.foldl updatepos (lineCol a a.length) = lineCol (a ++ cs.flatten) (a ++ cs.flatten).length := by
    intro cs
    induction cs with
    | nil => intro a; simp
    | cons c cs ih =>
      intro a
      simp only [List.foldl_cons, List.flatten_cons]
      rw [updatepos_step, ih (a ++ c), List.append_assoc]
  have h0 : lineCol [] ([] : PStr).length = (1, 0) := by simp [lineCol]
  rw [← h0, this chunks []]
  simp

/-- hence the position reported for a tag whose `<` sits at offset `off` — the tokenizer has consumed exactly
    `text[0:off]` when it reports the tag — is `lineCol text off`, however the text before it was chunked -/
theorem start_tag_position (text : PStr) (off : Nat) (chunks : List PStr) (h : chunks.flatten = text.take off) :
    posAfter chunks = lineCol text off := by
  rw [updatepos_any_chunking, h]
  simp only [lineCol, List.take_length]

/-- the specification read out: the line is one more than the number of newlines before the offset, and the
    column is the distance to the character after the last of them -/
theorem lineCol_spec (a b : PStr) (hb : b.count 10 = 0) :
    lineCol (a ++ [10] ++ b) (a ++ [10] ++ b).length = (2 + a.count 10, b.length) := by
  simp only [lineCol, List.take_length]
  refine Prod.ext ?_ ?_
  · simp [List.count_append]; omega
  · have := takeWhile_reverse_append (a ++ [10]) b hb
    simp only at this ⊢
    rw [this]; simp [List.takeWhile]

example : lineCol (BS.ofS "ab\ncd<e>") 5 = (2, 2) := by decide
example : posAfter [BS.ofS "ab", BS.ofS "\nc", BS.ofS "d"] = (2, 2) := by decide


/-! ### composed with the tokenizer model: positions are those of the `<` in the parsed text -/
section Tokenized
open BS.Tokenizer

/-- **every tag's stored position is the line/column of its start tag's `<`, for every text.** Tokenize `text` as
    `feed(text); close()` does (`BS.Tokenizer.run`, any `html.unescape`/`str.lower`), hand the callbacks to the adapter:
    the positions stored for the created tags, in order, are `lineCol text o` (1-based line, 0-based column) for the
    offsets `o` of the start-tag chunks (`none` for all with `store_line_numbers` off) — and at each such offset the
    text has a `<`. Composition of `BS.Props.TK.start_positions_are_offsets` (the tokenizer's position invariant) with
    `pos_pass_through`. -/
theorem start_tag_positions_are_offsets_tokenized (cfg : ACfg) (P : Params) (text : PStr) :
    ((toEvents cfg (callbacks (run P text))).2.map (·.pos)) =
        (startOffsets 0 (run P text).evs).map (fun o => if cfg.storeLines then some (lineCol text o) else none) ∧
      ∀ o ∈ startOffsets 0 (run P text).evs, text[o]? = some 60 := by
  obtain ⟨h1, h2⟩ := BS.Props.TK.start_positions_are_offsets P text
  refine ⟨?_, h2⟩
  rw [pos_pass_through, h1, List.map_map]
  rfl

/-- one stored position per start tag the tokenizer reports -/
theorem one_info_per_start_tag_tokenized (cfg : ACfg) (P : Params) (text : PStr) :
    (toEvents cfg (callbacks (run P text))).2.length = (startOffsets 0 (run P text).evs).length := by
  have := congrArg List.length (start_tag_positions_are_offsets_tokenized cfg P text).1
  simpa using this

/-- non-vacuity: `"ab\n <p id=x>c</p>"` — one tag, its `<` at offset 4 = line 2, column 1 -/
example : startOffsets 0 (run BS.Props.TK.P0 (BS.ofS "ab\n <p id=x>c</p>")).evs = [4]
    ∧ lineCol (BS.ofS "ab\n <p id=x>c</p>") 4 = (2, 1) := by decide

end Tokenized

end BS.Props.C18
