import BSModel.Proofs.SourcePos
/-! # C18 — sourceline/sourcepos give each tag's true position in the input

(1) bs4 passes the tokenizer's position through unchanged on every path, and stores nothing when
`store_line_numbers` is off; (2) the position arithmetic of CPython's `updatepos`, for ANY way the tokenizer may
cut the consumed text into chunks, is the 1-based line / 0-based column of the offset. That the tokenizer calls
`updatepos` with exactly the consumed text is recorded by the harness, not proved. -/
namespace BS.Props.C18
open BS.Adapter BS.Builder BS.SourcePos

/-- the positions the tokenizer reports are passed through unchanged: the start infos the adapter produces are, in
    order, exactly the positions of the start-tag callbacks (`<x>` and `<x/>` alike) when line numbers are stored, and
    `none` for every tag otherwise -/
theorem pos_pass_through (cfg : ACfg) (sevs : List SEv) :
    ((toEvents cfg sevs).2.map (·.pos)) =
      (startPositions sevs).map (fun p => if cfg.storeLines then some p else none) :=
  pos_pass_through_aux cfg sevs ⟨[]⟩

/-- with `store_line_numbers=False` every tag's position is `None` -/
theorem no_positions_when_off (cfg : ACfg) (sevs : List SEv) (h : cfg.storeLines = false) :
    ∀ i ∈ (toEvents cfg sevs).2, i.pos = none := by
  intro i hi
  have := pos_pass_through cfg sevs
  have hm : i.pos ∈ (toEvents cfg sevs).2.map (·.pos) := List.mem_map_of_mem hi
  rw [this] at hm
  simp only [h, Bool.false_eq_true, if_false, List.mem_map] at hm
  obtain ⟨_, _, heq⟩ := hm
  exact heq.symm

/-- one start info per start-tag callback -/
theorem one_info_per_start (cfg : ACfg) (sevs : List SEv) :
    (toEvents cfg sevs).2.length = (startPositions sevs).length := by
  have := congrArg List.length (pos_pass_through cfg sevs)
  simpa using this

/-! ### `updatepos` is the line/column of the offset, for any chunking -/

/-- **any chunking**: consuming the text in any sequence of chunks leaves `getpos()` at the 1-based line and
    0-based column of the end of the consumed text -/
theorem updatepos_any_chunking (chunks : List PStr) :
    posAfter chunks = lineCol chunks.flatten chunks.flatten.length := by
  unfold posAfter
  have : ∀ (cs : List PStr) (a : PStr), cs.foldl updatepos (lineCol a a.length) = lineCol (a ++ cs.flatten) (a ++ cs.flatten).length := by
    intro cs
    induction cs with
    | nil => intro a; simp
    | cons c cs ih =>
      intro a
      simp only [List.foldl_cons, List.flatten_cons]
      rw [updatepos_step, ih (a ++ c), List.append_assoc]
  have h0 : lineCol [] ([] : PStr).length = (1, 0) := by simp [lineCol]
  rw [← h0, this chunks []]
  simp

/-- hence the position reported for a tag whose `<` sits at offset `off` — the tokenizer has consumed exactly
    `text[0:off]` when it reports the tag — is `lineCol text off`, however the text before it was chunked -/
theorem start_tag_position (text : PStr) (off : Nat) (chunks : List PStr) (h : chunks.flatten = text.take off) :
    posAfter chunks = lineCol text off := by
  rw [updatepos_any_chunking, h]
  simp only [lineCol, List.take_length]

/-- the specification read out: the line is one more than the number of newlines before the offset, and the
    column is the distance to the character after the last of them -/
theorem lineCol_spec (a b : PStr) (hb : b.count 10 = 0) :
    lineCol (a ++ [10] ++ b) (a ++ [10] ++ b).length = (2 + a.count 10, b.length) := by
  simp only [lineCol, List.take_length]
  refine Prod.ext ?_ ?_
  · simp [List.count_append]; omega
  · have := takeWhile_reverse_append (a ++ [10]) b hb
    simp only at this ⊢
    rw [this]; simp [List.takeWhile]

example : lineCol (BS.ofS "ab\ncd<e>") 5 = (2, 2) := by decide
example : posAfter [BS.ofS "ab", BS.ofS "\nc", BS.ofS "d"] = (2, 2) := by decide

end BS.Props.C18
