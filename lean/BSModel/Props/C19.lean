import BSModel.Proofs.Detwingle
/-! # C19 — smart-quote conversion and detwingle preserve every character

Property theorems only.  `convertFrom`/`subMsChar` mirror `UnicodeDammit._convert_from`/`_sub_ms_char`,
`detwingleImpl` mirrors the `while` loop of `UnicodeDammit.detwingle` statement by statement and
`detwingle` is its structural specification; all tables (`MS_CHARS`, `MS_CHARS_TO_ASCII`,
`ENCODINGS_WITH_SMART_QUOTES`, `WINDOWS_1252_TO_UTF8`, `MULTIBYTE_MARKERS_AND_SIZES`, CPython's
single-byte decoders, the html5 names involved) are generated from the live objects on every run, so the
table obligations below stop building when an entry is wrong. -/
namespace BS.Props.C19
open BS BS.Detwingle

/-! ## Smart quotes -/

/-- `smart_quotes_to="xml"`: for each of the three carrier encodings and each byte 0x80–0x9F that
    Windows-1252 defines, what the code emits for that byte is a reference `&#xH;` whose value `H` is the
    byte's Windows-1252 character.  (False on a tree where `MS_CHARS[b"\x9f"] = ("Yuml", "")`.) -/
theorem xml_reference_denotes_cp1252 (enc : PStr) (he : enc ∈ carriers) (b : Nat) (hb : isSmart b = true)
    (ch : Nat) (hch : cp1252At b = some ch) :
    (convertFrom enc .xml [b]).bind unescapeRef = some ch := by
  have h : carriers.all (fun e => smartBytes.all (refCheck liveTables .xml e)) = true := by decide +kernel
  have := all_carriers_smart h enc he b hb
  simp only [refCheck, hch, beq_iff_eq] at this
  exact this

example : convertFrom nWindows1252 .xml [0x93] = some (ofS "&#x201C;") := of_evalsTo (by decide +kernel)
example : cp1252At 0x93 = some 0x201C ∧ isSmart 0x93 = true ∧ nWindows1252 ∈ carriers := by decide +kernel

/-- `smart_quotes_to="html"`: the named (or, for Ž/ž, numeric) reference emitted for the byte denotes,
    by the html5 entity table, the byte's Windows-1252 character. -/
theorem html_reference_denotes_cp1252 (enc : PStr) (he : enc ∈ carriers) (b : Nat) (hb : isSmart b = true)
    (ch : Nat) (hch : cp1252At b = some ch) :
    (convertFrom enc .html [b]).bind unescapeRef = some ch := by
  have h : carriers.all (fun e => smartBytes.all (refCheck liveTables .html e)) = true := by decide +kernel
  have := all_carriers_smart h enc he b hb
  simp only [refCheck, hch, beq_iff_eq] at this
  exact this

example : convertFrom nIso88592 .html [0x9F] = some (ofS "&Yuml;") := of_evalsTo (by decide +kernel)
example : unescapeRef (ofS "&Yuml;") = some 0x178 := of_evalsTo (by decide +kernel)
example : cp1252At 0x9F = some 0x178 := of_evalsTo (by decide +kernel)
example : convertFrom nIso88591 .html [0x8E] = some (ofS "&#x17D;") := of_evalsTo (by decide +kernel)

/-- The five bytes Windows-1252 leaves undefined (0x81 0x8D 0x8F 0x90 0x9D) denote no character, so they
    are outside the claim; what the code does with them, stated explicitly: in `xml` and `html` mode it
    emits the table's plain placeholder string, which contains no `&`. -/
theorem undefined_bytes_get_placeholder (enc : PStr) (he : enc ∈ carriers) (b : Nat) (hb : isSmart b = true)
    (hch : cp1252At b = none) (mode : Mode) (hm : mode = .xml ∨ mode = .html) :
    ∃ s, liveTables.msChars.lookup b = some (.inl s) ∧ convertFrom enc mode [b] = some s ∧ 38 ∉ s := by
  have hx : carriers.all (fun e => smartBytes.all (placeholderCheck liveTables .xml e)) = true := by decide +kernel
  have hh : carriers.all (fun e => smartBytes.all (placeholderCheck liveTables .html e)) = true := by decide +kernel
  have : placeholderCheck liveTables mode enc b = true := by
    rcases hm with rfl | rfl
    · exact all_carriers_smart hx enc he b hb
    · exact all_carriers_smart hh enc he b hb
  simp only [placeholderCheck, hch] at this
  split at this
  · rename_i s hs
    simp only [Bool.and_eq_true, beq_iff_eq, Bool.not_eq_true', List.contains_eq_mem,
      decide_eq_false_iff_not] at this
    exact ⟨s, hs, this.1, this.2⟩
  · exact absurd this (by simp)

example : smartBytes.filter (fun b => (cp1252At b).isNone) = [0x81, 0x8D, 0x8F, 0x90, 0x9D] := of_evalsTo (by decide +kernel)
example : convertFrom nWindows1252 .xml [0x81] = some (ofS " ") := of_evalsTo (by decide +kernel)

/-- `smart_quotes_to="ascii"`: every byte 0x80–0x9F has an entry in `MS_CHARS_TO_ASCII` (the "shouldn't
    happen" branch is dead) and the output is exactly that documented substitute, which is non-empty
    printable ASCII without `&`. -/
theorem ascii_emits_documented_substitute (enc : PStr) (he : enc ∈ carriers) (b : Nat) (hb : isSmart b = true) :
    ∃ s, liveTables.toAscii.lookup b = some s ∧ convertFrom enc .ascii [b] = some s ∧ s ≠ [] ∧
      ∀ c ∈ s, 0x20 ≤ c ∧ c < 0x7F ∧ c ≠ 38 := by
  have h : carriers.all (fun e => smartBytes.all (asciiCheck liveTables e)) = true := by decide +kernel
  have := all_carriers_smart h enc he b hb
  simp only [asciiCheck] at this
  split at this
  · rename_i s hs
    simp only [Bool.and_eq_true, beq_iff_eq, Bool.not_eq_true', List.isEmpty_eq_false_iff, List.all_eq_true,
      decide_eq_true_eq, bne_iff_ne, ne_eq] at this
    exact ⟨s, hs, this.1.1, this.1.2, fun c hc => by have := this.2 c hc; omega⟩
  · exact absurd this (by simp)

example : convertFrom nWindows1252 .ascii [0x99] = some (ofS "(TM)") := of_evalsTo (by decide +kernel)

/-- The documented substitutes, pinned: the 32 entries of `MS_CHARS_TO_ASCII` that can ever be used
    (keys 0x80–0x9F) are the ones bs4 4.13.0 documents in its source — EUR , f ,, ... + ++ ^ % S < OE ? Z ? ?
    ' ' " " * - -- ~ (TM) s > oe ? z Y (and a blank for 0x81).  Any change of an entry breaks this. -/
theorem ascii_substitutes_are_the_documented_ones :
    smartBytes.map (fun b => liveTables.toAscii.lookup b) =
      [some [69, 85, 82], some [32], some [44], some [102], some [44, 44], some [46, 46, 46], some [43], some [43, 43],
       some [94], some [37], some [83], some [60], some [79, 69], some [63], some [90], some [63],
       some [63], some [39], some [39], some [34], some [34], some [42], some [45], some [45, 45],
       some [126], some [40, 84, 77, 41], some [115], some [62], some [111, 101], some [63], some [122], some [89]] :=
  of_evalsTo (by decide +kernel)

/-- No conversion requested: the result is the plain strict decoding in the proposed codec, for every
    codec name and every input. -/
theorem none_mode_is_plain_decode (enc : PStr) (markup : Bytes) :
    convertFrom enc .none markup = (codecOf enc).bind (fun c => decodeStrict c markup) := by
  unfold convertFrom convertWith
  cases codecOf enc <;> simp

/-- …so under `windows-1252` each byte 0x80–0x9F appears as its Windows-1252 character itself
    (conversion fails for the five undefined bytes), and under the two ISO carriers as the C1 control
    character with the byte's own number, which is what those codecs assign to it. -/
theorem none_mode_character (b : Nat) (hb : isSmart b = true) :
    convertFrom nWindows1252 .none [b] = (cp1252At b).map ([·]) ∧
    convertFrom nIso88591 .none [b] = some [b] ∧
    convertFrom nIso88592 .none [b] = some [b] := by
  have h : smartBytes.all (fun b =>
      convertFrom nWindows1252 .none [b] == (cp1252At b).map ([·]) &&
      convertFrom nIso88591 .none [b] == some [b] &&
      convertFrom nIso88592 .none [b] == some [b]) = true := by decide +kernel
  have := all_smart h b hb
  simp only [Bool.and_eq_true, beq_iff_eq] at this
  exact ⟨this.1.1, this.1.2, this.2⟩

example : convertFrom nWindows1252 .none [0x93] = some [0x201C] := of_evalsTo (by decide +kernel)

/-- The substitution is applied only for the encodings named in `ENCODINGS_WITH_SMART_QUOTES`: for any
    other codec name the mode makes no difference. -/
theorem noncarrier_ignores_mode (enc : PStr) (h : isCarrier enc = false) (mode : Mode) (markup : Bytes) :
    convertFrom enc mode markup = convertFrom enc .none markup := by
  unfold convertFrom convertWith
  simp [h]

example : isCarrier nLatin1 = false ∧ isCarrier nCp1252 = false := by decide +kernel
example : convertFrom nCp1252 .xml [0x93] = some [0x201C] := of_evalsTo (by decide +kernel)

/-- The three encodings the property names are in the live `ENCODINGS_WITH_SMART_QUOTES`. -/
theorem documented_carriers_present :
    nWindows1252 ∈ carriers ∧ nIso88591 ∈ carriers ∧ nIso88592 ∈ carriers := by decide +kernel

/-- Bytes outside 0x80–0x9F are never touched by the substitution. -/
theorem other_bytes_untouched (enc : PStr) (mode : Mode) (b : Nat) (hb : isSmart b = false) :
    convertFrom enc mode [b] = convertFrom enc .none [b] := by
  unfold convertFrom convertWith
  cases codecOf enc with
  | none => rfl
  | some c => simp [substituteWith, hb]

example : isSmart 0xE9 = false ∧ convertFrom nWindows1252 .xml [0xE9] = convertFrom nWindows1252 .none [0xE9] :=
  ⟨by decide, other_bytes_untouched _ _ _ (by decide)⟩

/-- Conversion by a single-byte codec is byte-wise: if every byte on its own converts to its piece, the
    whole input converts to the concatenation of the pieces, in order.  (All modes, all table codecs.) -/
theorem convert_is_bytewise (enc : PStr) (t : List (Option Nat)) (hc : codecOf enc = some (.table t)) (mode : Mode)
    (markup : Bytes) (pieces : List PStr)
    (h : Bytewise (fun b p => convertFrom enc mode [b] = some p) markup pieces) :
    convertFrom enc mode markup = some pieces.flatten :=
  convertWith_bytewise liveTables enc t mode hc markup pieces h

example : Bytewise (fun b p => convertFrom nWindows1252 .html [b] = some p) [0x61, 0x93] [[0x61], ofS "&ldquo;"] :=
  .cons (of_evalsTo (by decide +kernel)) (.cons (of_evalsTo (by decide +kernel)) .nil)

/-- Under a carrier encoding with a mode set, every byte 0–255 converts (no input is rejected). -/
theorem carrier_conversion_total (enc : PStr) (he : enc ∈ carriers) (mode : Mode) (hm : mode ≠ .none)
    (b : Nat) (hb : b < 256) :
    (∃ t, codecOf enc = some (.table t)) ∧ (convertFrom enc mode [b]).isSome = true := by
  have hx : carriers.all (totalCheck liveTables .xml) = true := by decide +kernel
  have hh : carriers.all (totalCheck liveTables .html) = true := by decide +kernel
  have ha : carriers.all (totalCheck liveTables .ascii) = true := by decide +kernel
  have : totalCheck liveTables mode enc = true := by
    cases mode with
    | none => exact absurd rfl hm
    | xml => exact List.all_eq_true.mp hx enc he
    | html => exact List.all_eq_true.mp hh enc he
    | ascii => exact List.all_eq_true.mp ha enc he
  exact totalCheck_spec liveTables mode enc this b hb

example : nIso88592 ∈ carriers ∧ Mode.ascii ≠ .none ∧ (0xFF : Nat) < 256 := by decide +kernel

/-- **The smart-quote half of the property for whole inputs.**  For a carrier encoding and mode `xml`
    or `html`, any byte string converts, and the result is a concatenation of one piece per input byte
    where: the piece of a byte 0x80–0x9F that Windows-1252 defines is a character reference that
    un-escapes to exactly that character; the piece of an undefined one is a placeholder without `&`;
    and every other byte's piece is what plain decoding gives (the surrounding text is untouched). -/
theorem smart_quotes_preserve_characters (enc : PStr) (he : enc ∈ carriers) (mode : Mode)
    (hm : mode = .xml ∨ mode = .html) (markup : Bytes) (hbytes : ∀ b ∈ markup, b < 256) :
    ∃ pieces, convertFrom enc mode markup = some pieces.flatten ∧
      Bytewise (fun b p =>
        if isSmart b = true then
          (match cp1252At b with
           | some ch => unescapeRef p = some ch
           | none => 38 ∉ p)
        else convertFrom enc .none [b] = some p) markup pieces := by
  have hne : mode ≠ .none := by rcases hm with rfl | rfl <;> simp
  let f : Nat → PStr := fun b => (convertFrom enc mode [b]).getD []
  have hf : ∀ b ∈ markup, convertFrom enc mode [b] = some (f b) := by
    intro b hb
    obtain ⟨_, hs⟩ := carrier_conversion_total enc he mode hne b (hbytes b hb)
    obtain ⟨p, hp⟩ := Option.isSome_iff_exists.mp hs
    simp [f, hp]
  obtain ⟨⟨t, ht⟩, _⟩ := carrier_conversion_total enc he mode hne 0 (by omega)
  have hbw := Bytewise.of_total (R := fun b p => convertFrom enc mode [b] = some p) f markup hf
  refine ⟨markup.map f, convert_is_bytewise enc t ht mode markup _ hbw, ?_⟩
  apply hbw.mono
  intro b p _ hp
  by_cases hs : isSmart b = true
  · simp only [hs, if_true]
    cases hch : cp1252At b with
    | some ch =>
      have : (convertFrom enc mode [b]).bind unescapeRef = some ch := by
        rcases hm with rfl | rfl
        · exact xml_reference_denotes_cp1252 enc he b hs ch hch
        · exact html_reference_denotes_cp1252 enc he b hs ch hch
      simpa [hp] using this
    | none =>
      obtain ⟨s, _, h2, h3⟩ := undefined_bytes_get_placeholder enc he b hs hch mode hm
      rw [hp] at h2
      simp only [Option.some.injEq] at h2
      subst h2; exact h3
  · simp only [hs, Bool.false_eq_true, if_false]
    rw [← other_bytes_untouched enc mode b (by simpa using hs)]
    exact hp

/-- For a carrier with a mode set the conversion of a whole input is the concatenation of the
    conversions of its bytes (a total function of the input). -/
theorem carrier_conversion_flatten (enc : PStr) (he : enc ∈ carriers) (mode : Mode) (hm : mode ≠ .none)
    (markup : Bytes) (hbytes : ∀ b ∈ markup, b < 256) :
    convertFrom enc mode markup = some ((markup.map fun b => (convertFrom enc mode [b]).getD []).flatten) := by
  have hf : ∀ b ∈ markup, convertFrom enc mode [b] = some ((convertFrom enc mode [b]).getD []) := by
    intro b hb
    obtain ⟨_, hs⟩ := carrier_conversion_total enc he mode hm b (hbytes b hb)
    obtain ⟨p, hp⟩ := Option.isSome_iff_exists.mp hs
    simp [hp]
  obtain ⟨⟨t, ht⟩, _⟩ := carrier_conversion_total enc he mode hm 0 (by omega)
  exact convert_is_bytewise enc t ht mode markup _
    (Bytewise.of_total (R := fun b p => convertFrom enc mode [b] = some p) _ markup hf)

/-- **"Un-escaping what was produced gives exactly the character the byte denotes" for whole strings.**
    For a carrier encoding (whose byte table is `t`), mode `xml` or `html`, and any input without a literal
    `&` whose bytes 0x80–0x9F are all defined in Windows-1252: un-escaping the converted text gives, character
    for character, the input read with Windows-1252 for 0x80–0x9F and with the carrier's own table for every
    other byte. -/
theorem unescaping_the_conversion_gives_the_characters (enc : PStr) (he : enc ∈ carriers) (t : List (Option Nat))
    (ht : codecOf enc = some (.table t)) (mode : Mode) (hm : mode = .xml ∨ mode = .html) (markup : Bytes)
    (h : ∀ b ∈ markup, b < 256 ∧ b ≠ 38 ∧ (isSmart b = true → (cp1252At b).isSome = true)) :
    ∃ u, convertFrom enc mode markup = some u ∧ unescapeAll u = markup.map (meantChar t) := by
  have hx : unescCheckAll liveTables .xml = true := by decide +kernel
  have hh : unescCheckAll liveTables .html = true := by decide +kernel
  have hall : tableAll t (unescCheck liveTables mode enc) = true := by
    have : unescCheckAll liveTables mode = true := by
      rcases hm with rfl | rfl
      · exact hx
      · exact hh
    have := List.all_eq_true.mp this enc he
    simp only [ht] at this
    exact this
  have hne : mode ≠ .none := by rcases hm with rfl | rfl <;> simp
  refine ⟨_, carrier_conversion_flatten enc he mode hne markup (fun b hb => (h b hb).1), ?_⟩
  exact unescape_flatten liveTables mode enc t ht hall markup h

example : unescapeAll (ofS "a&ldquo;" ++ ofS "b&#x178;") = [0x61, 0x201C, 0x62, 0x178] := of_evalsTo (by decide +kernel)

/-- In particular for `windows-1252`: converting to references and un-escaping them again is the same as
    not converting at all — plain Windows-1252 decoding of the input. -/
theorem windows1252_conversion_unescapes_to_plain_decoding (mode : Mode) (hm : mode = .xml ∨ mode = .html) (markup : Bytes)
    (h : ∀ b ∈ markup, b ≠ 38 ∧ (cp1252At b).isSome = true) :
    ∃ u, convertFrom nWindows1252 mode markup = some u ∧ convertFrom nWindows1252 .none markup = some (unescapeAll u) := by
  have hc : codecOf nWindows1252 = some (.table Gen.Detwingle.cp1252) := of_evalsTo (by decide +kernel)
  have hw : nWindows1252 ∈ carriers := documented_carriers_present.1
  have hl : Gen.Detwingle.cp1252.length = 256 := by decide +kernel
  obtain ⟨u, h1, h2⟩ := unescaping_the_conversion_gives_the_characters nWindows1252 hw _ hc mode hm markup
    (fun b hb => ⟨cp1252At_lt b hl (h b hb).2, (h b hb).1, fun _ => (h b hb).2⟩)
  refine ⟨u, h1, ?_⟩
  rw [none_mode_is_plain_decode, hc]
  simp only [Option.bind_some, decodeStrict]
  rw [decodeTable_map _ markup (fun b hb => (h b hb).2), h2]
  congr 1
  apply List.map_congr_left
  intro b _
  unfold meantChar cp1252At
  split <;> rfl

example : convertFrom nWindows1252 .none [0x61, 0x93, 0xE9, 0x9F] = some [0x61, 0x201C, 0xE9, 0x178] :=
  of_evalsTo (by decide +kernel)
example : ∀ b ∈ [0x61, 0x93, 0xE9, 0x9F], b ≠ 38 ∧ (cp1252At b).isSome = true := by decide +kernel

/-! ### The constructor: byte-order marks, declarations, spellings of encoding names, history -/

/-- The observable `UnicodeDammit(markup, [enc, …], smart_quotes_to=mode)`: when `find_codec` resolves the
    first known encoding to `r` and `r` converts the BOM-stripped markup, that conversion is
    `unicode_markup` (no replacement characters, `original_encoding = r`) — whatever byte-order mark the
    input starts with, whatever encoding the document declares, whatever other encodings were passed. -/
theorem unicode_markup_is_first_conversion (enc r : PStr) (rest : List PStr) (declared : Option PStr) (mode : Mode)
    (markup : Bytes) (u : PStr) (hne : markup ≠ []) (hf : findCodec enc = some r)
    (h : convertFrom r mode (stripBom markup).1 = some u) :
    unicodeDammit (enc :: rest) declared mode markup = .ok u false (some r) :=
  unicodeDammitWith_first liveTables enc r rest declared mode markup u hne hf h

example : findCodec (ofS "ISO-8859-1") = some nIso88591 := of_evalsTo (by decide +kernel)
example : convertFrom nIso88591 .xml (stripBom [0xEF, 0xBB, 0xBF, 0x93]).1 = some (ofS "&#x201C;") :=
  of_evalsTo (by decide +kernel)
example : unicodeDammit [nWindows1252] none .none [0x61, 0x81] = .ok [0x61, 0xFFFD] true (some nWindows1252) :=
  of_evalsTo (by decide +kernel)

/-- `strip_byte_order_mark` removes at most one of the five byte-order marks from the front and nothing
    else; bytes 0x80–0x9F are never part of what is removed. -/
theorem stripBom_removes_only_a_bom (markup : Bytes) :
    ∃ pre, markup = pre ++ (stripBom markup).1 ∧
      pre ∈ [[], [0xFE, 0xFF], [0xFF, 0xFE], [0xEF, 0xBB, 0xBF], [0, 0, 0xFE, 0xFF], [0xFF, 0xFE, 0, 0]] := by
  unfold stripBom
  split
  · rename_i h; exact ⟨[0xFE, 0xFF], by rw [← h.1, List.take_append_drop], by simp⟩
  · split
    · rename_i h; exact ⟨[0xFF, 0xFE], by rw [← h.1, List.take_append_drop], by simp⟩
    · split
      · rename_i h; exact ⟨[0xEF, 0xBB, 0xBF], by rw [← h, List.take_append_drop], by simp⟩
      · split
        · rename_i h; exact ⟨[0, 0, 0xFE, 0xFF], by rw [← h, List.take_append_drop], by simp⟩
        · split
          · rename_i h; exact ⟨[0xFF, 0xFE, 0, 0], by rw [← h, List.take_append_drop], by simp⟩
          · exact ⟨[], rfl, by simp⟩

example : (stripBom [0xFF, 0xFE, 0x93, 0x00]).1 = [0x93, 0x00] := by decide
example : (stripBom [0xFF, 0xFE, 0x00, 0x00, 0x93]).1 = [0x93] := by decide

/-- Input that does not start with FE, FF, EF or 00 has no byte-order mark: nothing is stripped. -/
theorem stripBom_id (b : Nat) (rest : Bytes) (h : b ≠ 0xFE ∧ b ≠ 0xFF ∧ b ≠ 0xEF ∧ b ≠ 0) :
    stripBom (b :: rest) = (b :: rest, none) := by
  obtain ⟨h1, h2, h3, h4⟩ := h
  unfold stripBom
  have e1 : ¬ ((b :: rest).take 2 = [0xFE, 0xFF] ∧ ((b :: rest).drop 2).take 2 ≠ [0, 0]) := by
    cases rest <;> simp [h1]
  have e2 : ¬ ((b :: rest).take 2 = [0xFF, 0xFE] ∧ ((b :: rest).drop 2).take 2 ≠ [0, 0]) := by
    cases rest <;> simp [h2]
  have e3 : ¬ ((b :: rest).take 3 = [0xEF, 0xBB, 0xBF]) := by
    rcases rest with _ | ⟨x, _ | ⟨y, r⟩⟩ <;> simp [h3]
  have e4 : ¬ ((b :: rest).take 4 = [0, 0, 0xFE, 0xFF]) := by
    rcases rest with _ | ⟨x, _ | ⟨y, _ | ⟨z, r⟩⟩⟩ <;> simp [h4]
  have e5 : ¬ ((b :: rest).take 4 = [0xFF, 0xFE, 0, 0]) := by
    rcases rest with _ | ⟨x, _ | ⟨y, _ | ⟨z, r⟩⟩⟩ <;> simp [h2]
  simp only [e1, e2, e3, e4, e5, if_false]

example : stripBom [0x93, 0xFE, 0xFF] = ([0x93, 0xFE, 0xFF], none) := stripBom_id _ _ (by decide)

/-- A spelling CPython's registry accepts as it stands (and that is not one of the two `CHARSET_ALIASES`
    keys) is resolved to its lower-cased self — so `ISO-8859-1` or `Windows-1252` in any letter case
    reach the carrier test as the documented names, while `ISO_8859-1`, `latin-1`, `cp1252` stay what they
    are and are *not* carriers (the test at dammit.py:942 compares names, not codecs). -/
theorem findCodec_of_accepted_spelling (name : PStr) (hk : codecKnown name = true)
    (ha : Gen.Detwingle.charsetAliases.lookup name = none) : findCodec name = some (asciiLower name) := by
  have hne : name ≠ [] := by
    intro h; subst h; revert hk; decide +kernel
  unfold findCodec pyCodec
  simp [ha, hne, hk]

example : codecKnown (ofS "Windows-1252") = true ∧ Gen.Detwingle.charsetAliases.lookup (ofS "Windows-1252") = none ∧
    asciiLower (ofS "Windows-1252") = nWindows1252 := by decide +kernel
example : findCodec (ofS "ISO_8859-1") = some (ofS "iso_8859-1") := of_evalsTo (by decide +kernel)
example : isCarrier (ofS "iso_8859-1") = false := by decide +kernel

/-- **The smart-quote half of the property at the observable, at full strength.**  For every spelling
    `enc` that `find_codec` resolves to one of the carrier names, every mode `xml`/`html`, every non-empty
    byte string `markup` — with or without a byte-order mark, with or without `<`, declarations, other
    known encodings after the first — `UnicodeDammit(markup, [enc, …], smart_quotes_to=mode).unicode_markup`
    is the in-order concatenation of one piece per byte of the BOM-stripped markup: a reference
    un-escaping to the byte's Windows-1252 character for a defined byte 0x80–0x9F, an `&`-free placeholder
    for an undefined one, the plain decoding for every other byte; no replacement characters. -/
theorem constructor_preserves_characters (enc r : PStr) (rest : List PStr) (declared : Option PStr)
    (hf : findCodec enc = some r) (hr : r ∈ carriers) (mode : Mode) (hm : mode = .xml ∨ mode = .html)
    (markup : Bytes) (hne : markup ≠ []) (hbytes : ∀ b ∈ markup, b < 256) :
    ∃ pieces, unicodeDammit (enc :: rest) declared mode markup = .ok pieces.flatten false (some r) ∧
      Bytewise (fun b p =>
        if isSmart b = true then
          (match cp1252At b with
           | some ch => unescapeRef p = some ch
           | none => 38 ∉ p)
        else convertFrom r .none [b] = some p) (stripBom markup).1 pieces := by
  have hsub : ∀ b ∈ (stripBom markup).1, b < 256 := by
    obtain ⟨pre, hpre, _⟩ := stripBom_removes_only_a_bom markup
    intro b hb
    exact hbytes b (by rw [hpre]; simp [hb])
  obtain ⟨pieces, h1, h2⟩ := smart_quotes_preserve_characters r hr mode hm (stripBom markup).1 hsub
  exact ⟨pieces, unicode_markup_is_first_conversion enc r rest declared mode markup _ hne hf h1, h2⟩

example : unicodeDammit [ofS "ISO-8859-2", nUtf8] (some nUtf8) .html ([0xEF, 0xBB, 0xBF] ++ ofS "<?xml?>" ++ [0x93])
    = .ok (ofS "<?xml?>&ldquo;") false (some nIso88592) := of_evalsTo (by decide +kernel)

/-- The same for `ascii`: each byte 0x80–0x9F becomes its documented substitute, every other byte its
    plain decoding. -/
theorem constructor_ascii_substitutes (enc r : PStr) (rest : List PStr) (declared : Option PStr)
    (hf : findCodec enc = some r) (hr : r ∈ carriers) (markup : Bytes) (hne : markup ≠ []) (hbytes : ∀ b ∈ markup, b < 256) :
    ∃ pieces, unicodeDammit (enc :: rest) declared .ascii markup = .ok pieces.flatten false (some r) ∧
      Bytewise (fun b p =>
        if isSmart b = true then liveTables.toAscii.lookup b = some p
        else convertFrom r .none [b] = some p) (stripBom markup).1 pieces := by
  have hsub : ∀ b ∈ (stripBom markup).1, b < 256 := by
    obtain ⟨pre, hpre, _⟩ := stripBom_removes_only_a_bom markup
    intro b hb
    exact hbytes b (by rw [hpre]; simp [hb])
  let f : Nat → PStr := fun b => (convertFrom r .ascii [b]).getD []
  have hf' : ∀ b ∈ (stripBom markup).1, convertFrom r .ascii [b] = some (f b) := by
    intro b hb
    obtain ⟨_, hs⟩ := carrier_conversion_total r hr .ascii (by simp) b (hsub b hb)
    obtain ⟨p, hp⟩ := Option.isSome_iff_exists.mp hs
    simp [f, hp]
  obtain ⟨⟨t, ht⟩, _⟩ := carrier_conversion_total r hr .ascii (by simp) 0 (by omega)
  have hbw := Bytewise.of_total (R := fun b p => convertFrom r .ascii [b] = some p) f _ hf'
  refine ⟨_, unicode_markup_is_first_conversion enc r rest declared .ascii markup _ hne hf
    (convert_is_bytewise r t ht .ascii _ _ hbw), ?_⟩
  apply hbw.mono
  intro b p _ hp
  by_cases hs : isSmart b = true
  · simp only [hs, if_true]
    obtain ⟨s, h1, h2, _⟩ := ascii_emits_documented_substitute r hr b hs
    rw [hp] at h2; simp only [Option.some.injEq] at h2; subst h2; exact h1
  · simp only [hs, Bool.false_eq_true, if_false]
    rw [← other_bytes_untouched r .ascii b (by simpa using hs)]
    exact hp

example : unicodeDammit [nWindows1252] none .ascii (ofS "a" ++ [0x99, 0x85])
    = .ok (ofS "a(TM)...") false (some nWindows1252) := of_evalsTo (by decide +kernel)

/-- No conversion requested, at the observable: when `find_codec` resolves the first known encoding to a
    single-byte codec that decodes the BOM-stripped input, `unicode_markup` is that plain decoding — each
    byte 0x80–0x9F appears as the character the codec assigns to it (the Windows-1252 character itself under
    `windows-1252`). -/
theorem constructor_no_conversion (enc r : PStr) (rest : List PStr) (declared : Option PStr) (t : List (Option Nat))
    (hf : findCodec enc = some r) (ht : codecOf r = some (.table t)) (markup : Bytes) (hne : markup ≠ []) (u : PStr)
    (hu : decodeTable t (stripBom markup).1 = some u) :
    unicodeDammit (enc :: rest) declared .none markup = .ok u false (some r) := by
  apply unicode_markup_is_first_conversion enc r rest declared .none markup u hne hf
  rw [none_mode_is_plain_decode, ht]
  simpa [decodeStrict] using hu

example : unicodeDammit [nWindows1252] none .none [0x93, 0xE9, 0x9F] = .ok [0x201C, 0xE9, 0x178] false (some nWindows1252) :=
  of_evalsTo (by decide +kernel)
example : decodeTable Gen.Detwingle.cp1252 (stripBom [0x93, 0xE9, 0x9F]).1 = some [0x201C, 0xE9, 0x178] :=
  of_evalsTo (by decide +kernel)

/-- The other routes by which an encoding reaches the constructor.  (i) `override_encodings` (deprecated) is
    appended to the known encodings and `user_encodings` comes after the byte-order mark: whenever the first
    of `known ++ override` resolves and converts, that is the result, whatever `user_encodings` holds.
    (ii) With no known encodings and no byte-order mark, the first `user_encodings` entry plays that role.
    (iii) With no encodings at all, no byte-order mark, no declaration and input that is not valid UTF-8, the
    documented last resort `windows-1252` converts the input — smart quotes included. -/
theorem constructor_routes (mode : Mode) (markup : Bytes) (u : PStr) :
    (∀ known override user declared enc rest r, known ++ override = enc :: rest → markup ≠ [] → findCodec enc = some r →
        convertFrom r mode (stripBom markup).1 = some u →
        unicodeDammitFull known override user declared mode markup = .ok u false (some r)) ∧
    (∀ enc rest declared r, markup ≠ [] → stripBom markup = (markup, none) → findCodec enc = some r →
        convertFrom r mode markup = some u →
        unicodeDammitFull [] [] (enc :: rest) declared mode markup = .ok u false (some r)) ∧
    (stripBom markup = (markup, none) → decodeUtf8 markup = none → convertFrom nWindows1252 mode markup = some u →
        unicodeDammitFull [] [] [] none mode markup = .ok u false (some nWindows1252)) := by
  refine ⟨?_, ?_, ?_⟩
  · intro known override user declared enc rest r hk hne hf h
    unfold unicodeDammitFull
    rw [hk]
    exact unicodeDammitWithU_first liveTables enc r rest user declared mode markup u hne hf h
  · intro enc rest declared r hne hb hf h
    exact unicodeDammitWithU_user_first liveTables enc r rest declared mode markup u hne hb hf h
  · intro hb hd h
    exact unicodeDammitWithU_default_route liveTables mode markup u (of_evalsTo (by decide +kernel)) (by decide +kernel)
      (by decide +kernel) (of_evalsTo (by decide +kernel)) hb hd h

example : unicodeDammitFull [] [nLatin1] [nIso88592] none .html [0x93] = .ok [0x93] false (some nLatin1) :=
  of_evalsTo (by decide +kernel)
example : unicodeDammitFull [] [] [nIso88592] none .html [0x93] = .ok (ofS "&ldquo;") false (some nIso88592) :=
  of_evalsTo (by decide +kernel)
example : unicodeDammitFull [] [] [] none .html [0x93] = .ok (ofS "&ldquo;") false (some nWindows1252) :=
  of_evalsTo (by decide +kernel)
example : stripBom [0x93] = ([0x93], none) ∧ decodeUtf8 [0x93] = none := ⟨by decide, of_evalsTo (by decide +kernel)⟩
/-- valid UTF-8 on the default route is read as UTF-8: no byte is a smart quote then -/
example : unicodeDammitFull [] [] [] none .html [0xC2, 0x93] = .ok [0x93] false (some nUtf8) := of_evalsTo (by decide +kernel)

/-- A process as a sequence of constructor calls.  The code-mirror threads the only state the calls
    could share — none: `tried_encodings` is reset per object (dammit.py:778) and `find_codec` reads only
    class constants — so every call's outcome is what the same call gives on its own, whatever came
    before it.  (The harness runs real call histories in one process against fresh-process runs.) -/
theorem call_outcome_independent_of_history (before : List DammitCall) (c : DammitCall) (after : List DammitCall) :
    (runCalls (before ++ c :: after))[before.length]? = some (runCall c) := by
  rw [runCalls_eq_map]; simp

example : runCalls [{ known := [ofS "ISO_8859-1"], declared := none, mode := .xml, markup := [0x93] },
      { known := [nIso88591], declared := none, mode := .xml, markup := [0x93] }]
    = [.ok [0x93] false (some (ofS "iso_8859-1")), .ok (ofS "&#x201C;") false (some nIso88591)] :=
  of_evalsTo (by decide +kernel)
/-- an earlier call with `override_encodings` leaves nothing behind for a later default-route call -/
example : runCalls [{ known := [], declared := none, mode := .none, markup := [0x93], override := [nLatin1] },
      { known := [], declared := none, mode := .html, markup := [0x93] }]
    = [.ok [0x93] false (some nLatin1), .ok (ofS "&ldquo;") false (some nWindows1252)] :=
  of_evalsTo (by decide +kernel)

example : convertFrom nWindows1252 .html (ofS "a" ++ [0x93, 0xE9, 0x94]) =
    some (ofS "a&ldquo;" ++ [0xE9] ++ ofS "&rdquo;") := of_evalsTo (by decide +kernel)

/-! ## detwingle -/

/-- Table obligation: `MULTIBYTE_MARKERS_AND_SIZES`, `FIRST_…`, `LAST_…` make the scan step over
    UTF-8 correctly: every byte C2–F4 is taken as a lead byte with the size UTF-8 assigns to it, and no
    ASCII byte is. -/
theorem live_markers_sound : liveCfg.Sound :=
  Cfg.sound_of_check liveCfg (by decide +kernel)

/-- Table obligation: every byte in FIRST..LAST is covered by a range of positive size — otherwise the
    `while` loop would never advance.  Hence `detwingle` terminates with a result on every input. -/
theorem detwingle_total (bs : Bytes) : (detwingle bs).isSome = true :=
  scan_total liveCfg (Cfg.total_of_check liveCfg (by decide +kernel)) 0 bs

/-- Refinement: the index loop of the Python (`pos`, `chunk_start`, `byte_chunks`, the
    `chunk_start == 0` shortcut, the final slice) computes the structural scan — for every
    configuration of the class attributes and every byte list, hanging exactly when the scan does. -/
theorem detwingleImpl_refines (c : Cfg) (bs : Bytes) : detwingleImplWith c bs = detwingleWith c bs :=
  detwingleImplWith_eq c bs

/-- The same for the live class attributes: the code-mirror and the specification agree on every input. -/
theorem detwingleImpl_eq (bs : Bytes) : detwingleImpl bs = detwingle bs := detwingleImplWith_eq liveCfg bs

example : detwingleImpl [0x61, 0x93, 0xE2, 0x82, 0xAC, 0x94] =
    some [0x61, 0xE2, 0x80, 0x9C, 0xE2, 0x82, 0xAC, 0xE2, 0x80, 0x9D] := of_evalsTo (by decide +kernel)

/-- The public entry point with its default arguments (`main_encoding="utf8"`,
    `embedded_encoding="windows-1252"`) passes the argument checks and returns what the loop computes; so
    every theorem below about `detwingle` is a theorem about `UnicodeDammit.detwingle(in_bytes)`. -/
theorem detwingle_call_default (bs : Bytes) :
    ∃ out, detwingle bs = some out ∧ detwingleCall bs (ofS "utf8") (ofS "windows-1252") = .ok out := by
  obtain ⟨out, hout⟩ := Option.isSome_iff_exists.mp (detwingle_total bs)
  refine ⟨out, hout, ?_⟩
  have h1 : asciiLower ((ofS "windows-1252").map fun c => if c = 95 then 45 else c) = ofS "windows-1252" := by decide +kernel
  have h2 : asciiLower (ofS "utf8") = ofS "utf8" := by decide +kernel
  unfold detwingleCall
  simp only [h1, h2, true_or, not_true_eq_false, if_false, detwingleImpl_eq, hout]

example : detwingleCall [0x61, 0x93] (ofS "latin-1") (ofS "windows-1252") = .notImplemented := of_evalsTo (by decide +kernel)
example : detwingleCall [0x61, 0x93] (ofS "UTF-8") (ofS "WINDOWS_1252") = .ok [0x61, 0xE2, 0x80, 0x9C] := of_evalsTo (by decide +kernel)

/-- Letter case and `_` for `-` do not matter in an encoding name: the normal form of a spelling. -/
def normName (s : PStr) : PStr := s.map fun c => let c := if c = 95 then 45 else c; if 65 ≤ c && c ≤ 90 then c + 32 else c

/-- **Every accepted spelling of the optional arguments**: when `embedded_encoding` is `windows-1252`
    written in any letter case and with `_` or `-`, and `main_encoding` is `utf8` or `utf-8` in any letter
    case, the call passes the argument checks and returns what the loop computes — the same as the
    one-argument call.  (No `NotImplementedError` for `"windows_1252"`, `"Windows-1252"`, `"UTF-8"`, ….) -/
theorem detwingle_call_accepted_spellings (bs : Bytes) (mainEnc embEnc : PStr)
    (he : normName embEnc = nWindows1252)
    (hm : asciiLower mainEnc = ofS "utf8" ∨ asciiLower mainEnc = ofS "utf-8") :
    ∃ out, detwingle bs = some out ∧ detwingleCall bs mainEnc embEnc = .ok out := by
  obtain ⟨out, hout⟩ := Option.isSome_iff_exists.mp (detwingle_total bs)
  refine ⟨out, hout, ?_⟩
  have h1 : asciiLower (embEnc.map fun c => if c = 95 then 45 else c) = ofS "windows-1252" := by
    have : ofS "windows-1252" = nWindows1252 := by decide +kernel
    rw [this, ← he]
    simp [normName, asciiLower, List.map_map, Function.comp_def]
  unfold detwingleCall
  simp only [h1, hm, true_or, not_true_eq_false, if_false, detwingleImpl_eq, hout]

example : normName (ofS "Windows_1252") = nWindows1252 ∧ normName (ofS "WINDOWS-1252") = nWindows1252 ∧
    asciiLower (ofS "UTF-8") = ofS "utf-8" := by decide +kernel
example : detwingleCall [0x61, 0x93] (ofS "utf8") (ofS "windows_1252") = .ok [0x61, 0xE2, 0x80, 0x9C] := of_evalsTo (by decide +kernel)
example : detwingleCall [0x61, 0x93] (ofS "utf8") (ofS "cp1252") = .notImplemented := of_evalsTo (by decide +kernel)

/-- **Valid UTF-8 is returned unchanged** — for every byte list that is the UTF-8 encoding of a
    sequence of Unicode scalar values. -/
theorem detwingle_valid_id (bs : Bytes) (h : ValidUtf8 bs) : detwingle bs = some bs := by
  obtain ⟨s, hs, rfl⟩ := h
  have := scan_utf8 liveCfg live_markers_sound s (fun c hc => scalar_lt (hs c hc)) []
  simpa [detwingle, detwingleWith, scan] using this

example : ValidUtf8 [0x61, 0xC3, 0xA9, 0xE2, 0x82, 0xAC, 0xF0, 0x9F, 0x98, 0x80] :=
  ⟨[0x61, 0xE9, 0x20AC, 0x1F600], by decide, by decide⟩

/-- The strongest form of the same fact: `detwingle` looks only at lead bytes and the sizes they
    announce, so *any* input that splits into chunks — a byte that is neither lead byte nor convertible,
    or a lead byte followed by exactly as many arbitrary bytes as announced — possibly followed by a
    truncated last chunk, is returned unchanged (continuation bytes are never inspected). -/
theorem detwingle_inert_id (chunks : List Bytes) (tail : Bytes) (h : ∀ s ∈ chunks, Chunk liveCfg s)
    (ht : Tail liveCfg tail) : detwingle (chunks.flatten ++ tail) = some (chunks.flatten ++ tail) :=
  scan_chunks liveCfg chunks tail h ht

example : Chunk liveCfg [0x41] ∧ Chunk liveCfg [0x81] ∧ Chunk liveCfg [0xE2, 0x93, 0x93] ∧ Tail liveCfg [0xF0, 0x93] :=
  ⟨.plain _ (by decide +kernel) (by decide +kernel), .plain _ (by decide +kernel) (by decide +kernel),
   .multi _ 2 _ (by decide +kernel) (of_evalsTo (by decide +kernel)) rfl,
   .trunc _ 3 _ (by decide +kernel) (of_evalsTo (by decide +kernel)) (by decide)⟩

example : detwingle [0xE2, 0x93, 0x93, 0x41, 0xF0, 0x93] = some [0xE2, 0x93, 0x93, 0x41, 0xF0, 0x93] :=
  of_evalsTo (by decide +kernel)

/-- Table obligation: wherever `WINDOWS_1252_TO_UTF8` can be consulted — the key is ≥ 0x80 and not in
    the lead-byte range — its value is the UTF-8 encoding of the byte's Windows-1252 character (CPython's
    cp1252 codec), which exists and is a scalar value. -/
theorem table_agrees_with_cp1252_where_reachable (b : Nat) (hb : liveCfg.Convertible b) :
    ∃ ch, cp1252At b = some ch ∧ IsScalar ch ∧ liveCfg.conv? b = some (encodeUtf8 ch) :=
  Cfg.table_of_check liveCfg (by decide +kernel) b hb

example : liveCfg.Convertible 0x93 ∧ liveCfg.Convertible 0xA9 ∧ liveCfg.Convertible 0xFE := by decide +kernel

/-- The table's entries whose key lies in the lead-byte range C2–F4 are dead: `detwingle` computes the
    same function for any other table that agrees outside that range.  In particular a wrong value
    there (such as `0xE1 ↦ b"\xa1"`) cannot show. -/
theorem lead_byte_entries_are_dead (table' : List (Nat × Bytes))
    (h : ∀ b, liveCfg.isMarker b = false → liveCfg.table.lookup b = table'.lookup b) (bs : Bytes) :
    detwingleWith { liveCfg with table := table' } bs = detwingle bs := by
  unfold detwingle detwingleWith
  symm
  apply scan_congr liveCfg { liveCfg with table := table' } rfl rfl rfl
  intro b hb
  simp only [Cfg.conv?, h b hb]

/-- e.g. putting the correct value for 0xE1 (`á` = C3 A1) in front changes nothing, for any input -/
example (bs : Bytes) : detwingleWith { liveCfg with table := (0xE1, [0xC3, 0xA1]) :: liveCfg.table } bs = detwingle bs :=
  lead_byte_entries_are_dead _ (by
    intro b hb
    have hne : (b == 0xE1) = false := by
      cases h : b == 0xE1
      · rfl
      · have : b = 0xE1 := by simpa using h
        subst this; revert hb; decide +kernel
    simp [List.lookup_cons, hne]) bs

/-- 0xE1 is in the lead-byte range, so its entry is one of the dead ones. -/
theorem entry_E1_unreachable : liveCfg.isMarker 0xE1 = true ∧ ¬ liveCfg.Convertible 0xE1 := by decide +kernel

/-- **Every embeddable Windows-1252 byte is mapped per the standards** (whole-range table obligation,
    independent of which keys the library's table happens to have): a byte ≥ 0x80 that Windows-1252 defines
    and that is not a possible UTF-8 lead byte (C2–F4) is *not* taken as a lead byte by the scan and *is*
    mapped to the UTF-8 encoding of its Windows-1252 character.  Fails to build if an entry is missing
    (0xFF in 4.13.0), wrong, or if the lead-byte ranges swallow such a byte (C0/C1). -/
theorem embeddable_bytes_converted (b : Nat) (hb : Embeddable b) :
    liveCfg.isMarker b = false ∧ ∃ ch, cp1252At b = some ch ∧ IsScalar ch ∧ liveCfg.conv? b = some (encodeUtf8 ch) :=
  Cfg.embed_of_check liveCfg (by decide +kernel) b hb

example : Embeddable 0x80 ∧ Embeddable 0xC0 ∧ Embeddable 0xC1 ∧ Embeddable 0xFF ∧ ¬ Embeddable 0x81 ∧ ¬ Embeddable 0xE1 := by
  decide +kernel
example : (List.range 256).filter (fun b => decide (Embeddable b)) = (List.range 256).filter (fun b => decide (liveCfg.Convertible b)) := by
  decide +kernel

/-- …and nothing else is ever converted: the bytes the scan replaces are exactly the embeddable ones. -/
theorem convertible_iff_embeddable (b : Nat) : liveCfg.Convertible b ↔ Embeddable b := by
  constructor
  · exact Cfg.convertible_embeddable liveCfg (by decide +kernel) (by decide +kernel) b
  · intro hb
    obtain ⟨hm, ch, _, _, hc⟩ := embeddable_bytes_converted b hb
    exact ⟨hm, by simp [hc]⟩

/-- Whole-table obligation on `WINDOWS_1252_TO_UTF8` as generated: every one of its entries has a key in
    0x80–0xFF, no key occurs twice, and every entry either sits in the dead lead-byte range or is the UTF-8
    encoding of the key's Windows-1252 character. -/
theorem windows1252_table_whole :
    (liveCfg.table.map (·.1)).Nodup ∧
    ∀ kv ∈ liveCfg.table, 0x80 ≤ kv.1 ∧ kv.1 < 256 ∧
      (liveCfg.isMarker kv.1 = true ∨ ∃ ch, cp1252At kv.1 = some ch ∧ kv.2 = encodeUtf8 ch) := by
  refine ⟨by decide +kernel, ?_⟩
  have h : liveCfg.table.all (fun kv => decide (0x80 ≤ kv.1) && decide (kv.1 < 256) &&
      (liveCfg.isMarker kv.1 || (match cp1252At kv.1 with | some ch => kv.2 == encodeUtf8 ch | none => false))) = true := by
    decide +kernel
  intro kv hkv
  have := List.all_eq_true.mp h kv hkv
  simp only [Bool.and_eq_true, decide_eq_true_eq, Bool.or_eq_true] at this
  refine ⟨this.1.1, this.1.2, ?_⟩
  rcases this.2 with hm | hv
  · exact .inl hm
  · right
    split at hv
    · rename_i ch hch; exact ⟨ch, hch, by simpa using hv⟩
    · exact absurd hv (by simp)

/-- The class attributes are exactly what the standards say: lead bytes are C2–F4 with UTF-8's sizes. -/
theorem live_cfg_exact : liveCfg.Exact where
  sound := live_markers_sound
  marker_range := marker_range_of liveCfg (by decide +kernel) (by decide +kernel)
  conv_ok := fun b hb => by
    obtain ⟨ch, _, h2, h3⟩ := table_agrees_with_cp1252_where_reachable b hb
    exact ⟨ch, h2, h3⟩

/-- **For every byte list**: `detwingle` only ever replaces embeddable bytes by their table value —
    `Replaced` says the output is the input, in order, with some bytes `b` (not lead bytes, having a table
    entry) swapped for that entry; nothing is dropped, duplicated, reordered or otherwise altered.  This is
    "all surrounding text is untouched" without any assumption on the input. -/
theorem detwingle_only_replaces_embedded_bytes (bs out : Bytes) (h : detwingle bs = some out) :
    Replaced liveCfg bs out :=
  scan_replaced liveCfg 0 bs out h

example : detwingle [0xE0, 0x80, 0x80, 0xC0, 0x80, 0xF0, 0x93] =
    some [0xE0, 0x80, 0x80, 0xC3, 0x80, 0xE2, 0x82, 0xAC, 0xF0, 0x93] := of_evalsTo (by decide +kernel)

/-- **For every byte list**: `detwingle` is idempotent — valid or not, truncated or not, whatever it
    returns is returned unchanged when fed back. -/
theorem detwingle_idempotent (bs out : Bytes) (h : detwingle bs = some out) : detwingle out = some out :=
  scan_idem liveCfg (Cfg.selfInert_of_exact liveCfg live_cfg_exact) 0 bs out h

example : detwingle [0x93, 0xE2, 0x93] = some [0xE2, 0x80, 0x9C, 0xE2, 0x93] := of_evalsTo (by decide +kernel)
example : detwingle [0xE2, 0x80, 0x9C, 0xE2, 0x93] = some [0xE2, 0x80, 0x9C, 0xE2, 0x93] := of_evalsTo (by decide +kernel)

/-- **UTF-8 text with embedded single Windows-1252 bytes.**  For every input that is a concatenation of
    segments, each the UTF-8 encoding of a scalar value or a single convertible byte, the result is the
    UTF-8 encoding of the text in which each embedded byte has become its Windows-1252 character and
    every other character is unchanged, in order. -/
theorem detwingle_embedded (ps : List Piece)
    (h : ∀ p ∈ ps, match p with | .ch c => IsScalar c | .emb b => Embeddable b) :
    detwingle (ps.flatMap Piece.src)
      = some (utf8 (ps.map fun p => match p with | .ch c => c | .emb b => (cp1252At b).getD 0xFFFD)) := by
  have hok : ∀ p ∈ ps, p.Ok liveCfg := by
    intro p hp; have := h p hp
    cases p with
    | ch c => exact scalar_lt this
    | emb b => exact (convertible_iff_embeddable b).mpr this
  unfold detwingle detwingleWith
  rw [scan_pieces liveCfg live_markers_sound ps hok]
  congr 1
  unfold utf8
  rw [List.flatMap_map]
  apply flatMap_ext
  intro p hp
  cases p with
  | ch c => rfl
  | emb b =>
    obtain ⟨ch, h1, _, h3⟩ := table_agrees_with_cp1252_where_reachable b ((convertible_iff_embeddable b).mpr (h _ hp))
    simp [Piece.out, h1, h3]

/-- …and that result is valid UTF-8 (and each embedded byte's character exists in Windows-1252). -/
theorem detwingle_embedded_valid (ps : List Piece)
    (h : ∀ p ∈ ps, match p with | .ch c => IsScalar c | .emb b => Embeddable b) :
    ∃ out, detwingle (ps.flatMap Piece.src) = some out ∧ ValidUtf8 out := by
  refine ⟨_, detwingle_embedded ps h, _, ?_, rfl⟩
  intro c hc
  simp only [List.mem_map] at hc
  obtain ⟨p, hp, rfl⟩ := hc
  have := h p hp
  cases p with
  | ch c => exact this
  | emb b =>
    obtain ⟨ch, h1, h2, _⟩ := table_agrees_with_cp1252_where_reachable b ((convertible_iff_embeddable b).mpr this)
    simpa [h1] using h2

example : detwingle ([Piece.ch 0x61, .emb 0x93, .ch 0x20AC, .emb 0xA9].flatMap Piece.src)
    = some (utf8 [0x61, 0x201C, 0x20AC, 0xA9]) := of_evalsTo (by decide +kernel)

/-- The existential notion of validity used above is exactly that of the executable strict decoder
    (Unicode Table 3-7; the harness compares it with CPython's `bytes.decode("utf-8")`): a byte list
    decodes to `s` iff it is the encoding of `s` and `s` consists of scalar values. -/
theorem decodeUtf8_iff (bs : Bytes) (s : PStr) :
    decodeUtf8 bs = some s ↔ bs = utf8 s ∧ ∀ c ∈ s, IsScalar c :=
  ⟨decodeUtf8_sound bs s, fun ⟨h1, h2⟩ => h1 ▸ decodeUtf8_utf8 s h2⟩

example : decodeUtf8 (utf8 [0x61, 0x20AC, 0x10FFFF]) = some [0x61, 0x20AC, 0x10FFFF] := of_evalsTo (by decide +kernel)

/-- `ValidUtf8` (existential) and the decidable scanner coincide. -/
theorem valid_utf8_iff_decodes (bs : Bytes) : ValidUtf8 bs ↔ (decodeUtf8 bs).isSome = true := by
  constructor
  · rintro ⟨s, hs, rfl⟩; simp [decodeUtf8_utf8 s hs]
  · intro h
    obtain ⟨s, hs⟩ := Option.isSome_iff_exists.mp h
    obtain ⟨h1, h2⟩ := decodeUtf8_sound bs s hs
    exact ⟨s, h2, h1⟩

example : decodeUtf8 [0xED, 0xA0, 0x80] = none := of_evalsTo (by decide +kernel)
example : decodeUtf8 [0xC0, 0x80] = none := of_evalsTo (by decide +kernel)
example : decodeUtf8 [0xF4, 0x90, 0x80, 0x80] = none := of_evalsTo (by decide +kernel)
example : decodeUtf8 [0xE2, 0x82, 0xAC] = some [0x20AC] := of_evalsTo (by decide +kernel)

/-- **For every byte list**: the result is valid UTF-8 *exactly when* the input is UTF-8 text with
    embedded Windows-1252 bytes — a concatenation of encodings of scalar values and single embeddable
    bytes.  (So overlong forms after a lead byte, truncated sequences, the five undefined bytes, stray
    continuation-range bytes inside a multi-byte slot all leave the result invalid, and nothing else does.) -/
theorem detwingle_output_valid_iff (bs out : Bytes) (h : detwingle bs = some out) :
    ValidUtf8 out ↔ ∃ ps : List Piece, (∀ p ∈ ps, match p with | .ch c => IsScalar c | .emb b => Embeddable b) ∧
      bs = ps.flatMap Piece.src := by
  constructor
  · intro hv
    obtain ⟨t, ht⟩ := Option.isSome_iff_exists.mp ((valid_utf8_iff_decodes out).mp hv)
    obtain ⟨ps, hps, hbs⟩ := scan_valid_inv liveCfg live_cfg_exact bs.length bs out t (Nat.le_refl _) h ht
    refine ⟨ps, ?_, hbs⟩
    intro p hp
    have := hps p hp
    cases p with
    | ch c => exact this
    | emb b => exact (convertible_iff_embeddable b).mp this
  · rintro ⟨ps, hps, rfl⟩
    obtain ⟨out', h1, h2⟩ := detwingle_embedded_valid ps hps
    rw [h] at h1
    simp only [Option.some.injEq] at h1
    subst h1; exact h2

example : ¬ ValidUtf8 [0xE0, 0x80, 0x80] := by
  rw [valid_utf8_iff_decodes]; decide +kernel

/-- both sides of the equivalence are inhabited: a valid result comes from a piece list … -/
example : detwingle ([Piece.ch 0x1F600, .emb 0xFF, .emb 0xC0].flatMap Piece.src) = some (utf8 [0x1F600, 0xFF, 0xC0]) :=
  of_evalsTo (by decide +kernel)
/-- … and an input that is no such concatenation (an overlong form in a 3-byte slot, a truncated tail, an
    undefined byte) gives an invalid result -/
example : detwingle [0xE0, 0x80, 0x80] = some [0xE0, 0x80, 0x80] ∧ detwingle [0x81] = some [0x81] ∧
    detwingle [0x93, 0xE2, 0x82] = some [0xE2, 0x80, 0x9C, 0xE2, 0x82] :=
  ⟨of_evalsTo (by decide +kernel), of_evalsTo (by decide +kernel), of_evalsTo (by decide +kernel)⟩
example : decodeUtf8 [0x81] = none ∧ decodeUtf8 [0xE2, 0x80, 0x9C, 0xE2, 0x82] = none :=
  ⟨of_evalsTo (by decide +kernel), of_evalsTo (by decide +kernel)⟩

end BS.Props.C19
