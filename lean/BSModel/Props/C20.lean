import BSModel.Proofs.Registry
import BSModel.Gen.Registry
/-! # C20 — builder selection picks the newest builder offering the requested features

Property theorems only. `lookup`/`register`/`construct` are the code-mirror of
`TreeBuilderRegistry` and of the builder decision in `BeautifulSoup.__init__`; `lookupSpec` is the
documented meaning over the plain registration history. -/
namespace BS.Props.C20
open BS.Registry

/-- Refinement: for every registration history (builders advertising feature *sets*) and every request
    list (repeats, unknown features, any length) the code's loop computes the documented answer. -/
theorem lookup_spec (regs : List Builder) (fs : List Nat) (hnd : ∀ b ∈ regs, b.features.Nodup) :
    lookup (registerAll regs) fs = lookupSpec regs.reverse fs := by
  obtain ⟨hinv, hb⟩ := inv_registerAll regs hnd
  generalize registerAll regs = r at hinv hb
  unfold lookup lookupSpec
  by_cases hfs : fs.isEmpty = true
  · simp only [hfs, if_true]
    rw [hb]; cases regs.reverse <;> simp
  · simp only [hfs, Bool.false_eq_true, if_false]
    by_cases he : r.builders.isEmpty = true
    · have hnil : r.builders = [] := by simpa using he
      have : regs.reverse = [] := by rw [← hb, hnil]
      simp [he, this, offered]
    · simp only [he, Bool.false_eq_true, if_false]
      rw [scan_none r hinv fs, hb]
      cases hoff : fs.filter (offered regs.reverse) with
      | nil => simp
      | cons f0 rest =>
        simp only [List.isEmpty_cons, Bool.false_eq_true, if_false]
        rw [hinv f0, hb, List.find?_filter]
        apply find?_congr_mem
        intro b hbm
        have : (regs.reverse.filter (fun b => offers b f0 && rest.all (offers b))).contains b
            = (offers b f0 && rest.all (offers b)) := by
          cases hh : (offers b f0 && rest.all (offers b))
          · simp only [List.contains_eq_mem, List.mem_filter, hh]; simp
          · simp only [List.contains_eq_mem, List.mem_filter, hh, hbm]; simp
        rw [this]
        simp only [List.all_cons]
        cases offers b f0 <;> cases rest.all (offers b) <;> simp

/-- What the answer means, spelled out: the chosen builder is registered, advertises every requested
    feature that anybody advertises, and no more recently registered builder does. -/
theorem lookup_some_meaning (recentFirst : List Builder) (fs : List Nat) (b : Builder) (hfs : fs ≠ [])
    (h : lookupSpec recentFirst fs = some b) :
    b ∈ recentFirst ∧ (∃ f ∈ fs, offered recentFirst f = true) ∧
    (∀ f ∈ fs, offered recentFirst f = true → f ∈ b.features) ∧
    ∃ pre post, recentFirst = pre ++ b :: post ∧
      ∀ c ∈ pre, ∃ f ∈ fs, offered recentFirst f = true ∧ f ∉ c.features := by
  unfold lookupSpec at h
  have hne : fs.isEmpty = false := by cases fs <;> simp_all
  simp only [hne, Bool.false_eq_true, if_false] at h
  split at h
  · exact absurd h (by simp)
  · rename_i hoff
    have hmem := List.mem_of_find?_eq_some h
    have hsat := List.find?_some h
    refine ⟨hmem, ?_, ?_, ?_⟩
    · cases hf : fs.filter (offered recentFirst) with
      | nil => simp [hf] at hoff
      | cons f rest =>
        have : f ∈ fs.filter (offered recentFirst) := by rw [hf]; simp
        exact ⟨f, (List.mem_filter.mp this).1, (List.mem_filter.mp this).2⟩
    · intro f hf ho
      have := List.all_eq_true.mp hsat f (List.mem_filter.mpr ⟨hf, ho⟩)
      simpa [offers] using this
    · obtain ⟨pre, post, hsplit, hpre⟩ := List.find?_eq_some_iff_append.mp h |>.2
      refine ⟨pre, post, hsplit, ?_⟩
      intro c hc
      have := hpre c hc
      simp only [List.all_eq_true, List.mem_filter, Bool.not_eq_true', Bool.not_eq_eq_eq_not, Bool.not_true] at this
      have hex : ∃ f, (f ∈ fs ∧ offered recentFirst f = true) ∧ offers c f = false := by
        apply Classical.byContradiction
        intro hcon
        simp only [not_exists, not_and, Bool.not_eq_false] at hcon
        have h2 : (fs.filter (offered recentFirst)).all (offers c) = true := by
          simp only [List.all_eq_true, List.mem_filter]; exact fun f hf => hcon f hf
        rw [h2] at this; exact absurd this (by simp)
      obtain ⟨f, ⟨hf, ho⟩, hn⟩ := hex
      exact ⟨f, hf, ho, by simpa [offers] using hn⟩

/-- nothing is returned exactly when no requested feature is offered or no single builder offers all the
    offered ones -/
theorem lookup_none_iff (recentFirst : List Builder) (fs : List Nat) (hfs : fs ≠ []) :
    lookupSpec recentFirst fs = none ↔
      (∀ f ∈ fs, offered recentFirst f = false) ∨
      (∀ b ∈ recentFirst, ∃ f ∈ fs, offered recentFirst f = true ∧ f ∉ b.features) := by
  unfold lookupSpec
  have hne : fs.isEmpty = false := by cases fs <;> simp_all
  simp only [hne, Bool.false_eq_true, if_false]
  constructor
  · intro h
    split at h
    · rename_i hoff
      left
      intro f hf
      have : fs.filter (offered recentFirst) = [] := by simpa using hoff
      have := List.filter_eq_nil_iff.mp this f hf
      simpa using this
    · right
      intro b hb
      have := List.find?_eq_none.mp h b hb
      simp only [List.all_eq_true, List.mem_filter, Bool.not_eq_true] at this
      apply Classical.byContradiction
      intro hcon
      apply this
      intro f hf
      apply Classical.byContradiction
      intro hn
      exact hcon ⟨f, hf.1, hf.2, by simpa [offers] using hn⟩
  · intro h
    split
    · rfl
    · rename_i hoff
      rcases h with h | h
      · exfalso; apply hoff
        simp only [List.isEmpty_iff, List.filter_eq_nil_iff]
        intro f hf; simp [h f hf]
      · apply List.find?_eq_none.mpr
        intro b hb
        obtain ⟨f, hf, ho, hn⟩ := h b hb
        simp only [List.all_eq_true, List.mem_filter, Bool.not_eq_true]
        intro hall
        have := hall f ⟨hf, ho⟩
        simp [offers] at this
        exact hn this

/-- features nobody offers are ignored -/
theorem unoffered_ignored (recentFirst : List Builder) (fs : List Nat)
    (h : fs.filter (offered recentFirst) ≠ []) :
    lookupSpec recentFirst fs = lookupSpec recentFirst (fs.filter (offered recentFirst)) := by
  unfold lookupSpec
  have h1 : fs.isEmpty = false := by cases fs <;> simp_all
  have h2 : (fs.filter (offered recentFirst)).isEmpty = false := by
    cases hh : fs.filter (offered recentFirst) <;> simp_all
  simp [h1, h2, List.filter_filter]

/-- the most recent registration when no features are requested -/
theorem lookup_no_features (regs : List Builder) (hnd : ∀ b ∈ regs, b.features.Nodup) :
    lookup (registerAll regs) [] = regs.getLast? := by
  rw [lookup_spec regs [] hnd]; simp [lookupSpec, List.head?_reverse]

/-- the default request `["html","fast"]` (features 0, 1) falls back to a builder that offers only `html`
    when nobody offers `fast` -/
theorem default_falls_back (regs : List Builder) (hnd : ∀ b ∈ regs, b.features.Nodup)
    (html fast : Nat) (hfast : offered regs.reverse fast = false) (hhtml : offered regs.reverse html = true) :
    lookup (registerAll regs) [html, fast] = regs.reverse.find? (fun b => offers b html) := by
  rw [lookup_spec regs _ hnd]
  simp [lookupSpec, List.filter_cons, hfast, hhtml]

/-- `FeatureNotFound` is raised exactly when no builder is passed and the lookup returns nothing -/
theorem fnf_iff_none (r : Registry) (dflt : List Nat) (b : BuilderArg) (fa : FeaturesArg) (kw : Bool) :
    construct r dflt b fa kw = .featureNotFound ↔ b = .none ∧ lookup r (normFeatures dflt fa) = none := by
  unfold construct
  cases b <;> simp
  split <;> simp_all

/-- a builder class or instance passed explicitly is used without consulting the registry -/
theorem explicit_builder_bypasses (r r' : Registry) (dflt : List Nat) (b : BuilderArg) (fa fa' : FeaturesArg)
    (kw : Bool) (hb : b ≠ .none) :
    construct r dflt b fa kw = construct r' dflt b fa' kw ∧
    ∃ d, construct r dflt b fa kw = .ok d ∧ d.registryConsulted = false ∧
      (b = .cls d.builder ∨ b = .inst d.builder) := by
  cases b with
  | none => exact absurd rfl hb
  | cls id => exact ⟨rfl, _, rfl, rfl, Or.inl rfl⟩
  | inst id => exact ⟨rfl, _, rfl, rfl, Or.inr rfl⟩

/-- keyword arguments are forwarded to every builder the constructor instantiates itself, and are
    ignored (with a warning iff there are any) exactly when an instance was passed -/
theorem kwargs_forwarded (r : Registry) (dflt : List Nat) (b : BuilderArg) (fa : FeaturesArg) (kw : Bool)
    (d : Decision) (h : construct r dflt b fa kw = .ok d) :
    (d.instantiated = true → d.kwargsForwarded = true) ∧
    (d.instantiated = false ↔ ∃ id, b = .inst id) ∧
    (d.kwargsIgnoredWarning = true ↔ (∃ id, b = .inst id) ∧ kw = true) := by
  unfold construct at h
  cases b with
  | cls id => simp at h; subst h; simp
  | inst id => simp at h; subst h; simp
  | none =>
    simp only at h
    split at h
    · simp at h
    · simp at h; subst h; simp

/-! non-vacuity: a concrete history and requests exercising every clause -/
def bA : Builder := ⟨1, [0, 1]⟩      -- html, fast
def bB : Builder := ⟨2, [0, 2]⟩      -- html, permissive
def bC : Builder := ⟨3, [3]⟩         -- xml
example : lookup (registerAll [bA, bB, bC]) [0] = some bB := by decide
example : lookup (registerAll [bA, bB, bC]) [0, 1] = some bA := by decide
example : lookup (registerAll [bA, bB, bC]) [0, 9] = some bB := by decide
example : lookup (registerAll [bA, bB, bC]) [1, 2] = none := by decide
example : lookup (registerAll [bA, bB, bC]) [9] = none := by decide
example : lookup (registerAll [bA, bB, bC]) [] = some bC := by decide
example : ∀ b ∈ [bA, bB, bC], b.features.Nodup := by decide

end BS.Props.C20

/-! ### histories on one registry: lookups are observations -/
namespace BS.Props.C20
open BS.Registry

/-- what a program does with one registry object: register a builder, or ask -/
inductive ROp where
  | register (b : Builder)
  | lookup (fs : List Nat)

/-- run a history on a registry; the answers of the lookups, in order -/
def runHistory : Registry → List ROp → List (Option Builder)
  | _, [] => []
  | r, .register b :: ops => runHistory (register r b) ops
  | r, .lookup fs :: ops => lookup r fs :: runHistory r ops

/-- the documented answers: each lookup is answered for the registrations made BEFORE it (newest first), whatever was asked earlier -/
def specHistory : List Builder → List ROp → List (Option Builder)
  | _, [] => []
  | recentFirst, .register b :: ops => specHistory (b :: recentFirst) ops
  | recentFirst, .lookup fs :: ops => lookupSpec recentFirst fs :: specHistory recentFirst ops

theorem history_answers_aux (regs : List Builder) (ops : List ROp) (hnd : ∀ b ∈ regs, b.features.Nodup)
    (hops : ∀ op ∈ ops, ∀ b, op = .register b → b.features.Nodup) :
    runHistory (registerAll regs) ops = specHistory regs.reverse ops := by
  induction ops generalizing regs with
  | nil => rfl
  | cons op ops ih =>
    cases op with
    | register b =>
      have hb : b.features.Nodup := hops _ (by simp) b rfl
      have h1 : register (registerAll regs) b = registerAll (regs ++ [b]) := by
        simp [registerAll, List.foldl_append]
      simp only [runHistory, specHistory, h1]
      have := ih (regs ++ [b]) (by
        intro c hc
        rcases List.mem_append.mp hc with hc | hc
        · exact hnd c hc
        · simp at hc; rw [hc]; exact hb) (fun op hop => hops op (by simp [hop]))
      simpa using this
    | lookup fs =>
      simp only [runHistory, specHistory]
      rw [lookup_spec regs fs hnd, ih regs hnd (fun op hop => hops op (by simp [hop]))]

/-- **every interleaving** of registrations and lookups on a fresh registry: each lookup gets the documented answer for the
    registrations made so far — a lookup (or any number of them) never changes what a later lookup answers, and a builder
    registered after a question was asked is seen by the next identical question -/
theorem history_answers (ops : List ROp) (hops : ∀ op ∈ ops, ∀ b, op = .register b → b.features.Nodup) :
    runHistory empty ops = specHistory [] ops := by
  have := history_answers_aux [] ops (by intro b hb; cases hb) hops
  simpa [registerAll] using this

example : runHistory empty [.lookup [0], .register ⟨1, [0, 1]⟩, .lookup [0], .lookup [5], .register ⟨2, [0]⟩, .lookup [0]]
    = [none, some ⟨1, [0, 1]⟩, none, some ⟨2, [0]⟩] := by decide

end BS.Props.C20

/-! ### obligations over the generated (live) registry of this working tree -/
namespace BS.Props.C20
open BS.Registry

/-- with the builders this installation ships, the constructor's default request finds html.parser -/
theorem shipped_default_finds_htmlparser :
    (lookup (registerAll BS.Gen.shippedRegistrations) BS.Gen.defaultFeatures).map (·.id)
      = some BS.Gen.htmlParserId := by decide

theorem shipped_features_nodup : ∀ b ∈ BS.Gen.shippedRegistrations, b.features.Nodup := by decide

end BS.Props.C20
