import BSModel.Proofs.TokenizerTags
import BSModel.Proofs.TokenizerRoundAttrs
import BSModel.Proofs.TokenizerErr
import BSModel.Proofs.TokenizerExact
/-! # TK — CPython's `html.parser` tokenizer as bs4 drives it (`feed(text); close()`, `convert_charrefs=False`)

Theorems about the executable model `BS.Tokenizer.run` (`Model/Tokenizer.lean`, a code mirror of `html/parser.py` and
`_markupbase.py` of CPython 3.12, tied to the real parser by `harness/tk.py`), for ALL texts and all values of the
parameters (`html.unescape`, `str.lower`):

* positions: at every turn of the `goahead` loop `(lineno, offset)` is the line/column of the current index, hence every
  callback — in particular every start tag — is made with `getpos()` = 1-based line / 0-based column of the first
  character of the text it consumes, which for a start tag is its `<`;
* coverage: the chunks consumed for the callbacks, in order, followed by the unconsumed rest, are the text; the rest is
  empty unless the parser raised or CDATA mode (`<script>`/`<style>` without end tag) is still on at `close()`;
* data callbacks carry exactly the text of their span;
* the fuel of the model's loops never runs out (every continuing turn consumes at least one character);
* the parser raises only inside `parse_marked_section` (texts without `<![` are never rejected);
* round trips of `parse_starttag` / `parse_endtag` on a small writer grammar;
* EXACT round trips of the delimiter-terminated constructs (comments, processing instructions, `<!DOCTYPE …>`, CDATA marked
  sections, character data): a decidable predicate on the written body, the parse result when it holds, and the parse
  result — the proper prefix up to the FIRST terminator — when it does not; based on `search_least` (`pattern.search`
  reports the least matching offset).

`Tok.skip` marks the two stretches CPython consumes without any callback (`</>`, and the `&` of an incomplete
reference that is all that is left at `close()`). -/
namespace BS.Props.TK
open BS.Tokenizer BS.SourcePos BS.Adapter

/-- the tokenizer stands at index `i` of `text`: the rest of its buffer is `text[i:]` and `(lineno, offset)` is the
    1-based line and 0-based column of `i` -/
def AtIndex (text : PStr) (st : St) (i : Nat) : Prop :=
  i ≤ text.length ∧ st.s = text.drop i ∧ st.pos = lineCol text i

private theorem atIndex_of_spec {text pre : PStr} {st st' : St} {evs : List Ev} (hpre : pre ++ st.s = text)
    (h : Spec pre st.s evs st') : AtIndex text st' (pre.length + (srcs evs).length) := by
  have hc := h.cover
  have ht : text = (pre ++ srcs evs) ++ st'.s := by rw [List.append_assoc, hc, hpre]
  refine ⟨?_, ?_, ?_⟩
  · rw [ht]; simp only [List.length_append]; omega
  · rw [ht, ← List.length_append, List.drop_left]
  · rw [h.pos, ht, ← List.length_append, lineCol_prefix]

private theorem pre_of_atIndex {text : PStr} {st : St} {i : Nat} (h : AtIndex text st i) :
    text.take i ++ st.s = text ∧ st.pos = posOf (text.take i) ∧ (text.take i).length = i := by
  obtain ⟨h1, h2, h3⟩ := h
  have hl : (text.take i).length = i := by simp; omega
  refine ⟨by rw [h2, List.take_append_drop], ?_, hl⟩
  rw [h3]
  show lineCol text i = lineCol (text.take i) (text.take i).length
  rw [hl]
  simp [lineCol, List.take_take]

/-- **position invariant, one loop turn.** If the tokenizer stands at index `i` before a turn of the `while` loop of
    `goahead`, it stands at index `i + (what the turn consumed)` after it — `(lineno, offset)` is again the line/column
    of the current index. -/
theorem position_invariant_step (P : Params) (end_ : Bool) (text : PStr) (st : St) (i : Nat) (h : AtIndex text st i) :
    AtIndex text (step P end_ st).2.1 (i + (srcs (step P end_ st).1).length) := by
  obtain ⟨hpre, hpos, hlen⟩ := pre_of_atIndex h
  have := atIndex_of_spec hpre (step_spec P end_ st _ hpos)
  rwa [hlen] at this

/-- **position invariant, `goahead`.** The same across a whole `goahead(end)` call (loop and final flush), so it holds
    at the start of `close()`'s call as well: `reset()` puts the tokenizer at index 0, `feed` leaves it at some index,
    `close()` continues from there. -/
theorem position_invariant_goahead (P : Params) (end_ : Bool) (text : PStr) (st : St) (i : Nat) (h : AtIndex text st i) :
    AtIndex text (goahead P end_ st).st (i + (srcs (goahead P end_ st).evs).length) := by
  obtain ⟨hpre, hpos, hlen⟩ := pre_of_atIndex h
  have := atIndex_of_spec hpre (goahead_spec P end_ st _ hpos)
  rwa [hlen] at this

theorem position_invariant_init (text : PStr) : AtIndex text (init text) 0 := by
  simp [AtIndex, init, lineCol]

/-- **coverage.** The chunks of text consumed for the events of `feed(text); close()`, in order, followed by what
    is left in the buffer, are the text: nothing is consumed twice, skipped or reordered. -/
theorem coverage (P : Params) (text : PStr) : srcs (run P text).evs ++ (run P text).st.s = text :=
  (run_spec P text).cover

/-- **nothing is left** at the end of `close()` unless the parser raised or is still in CDATA mode (an unterminated
    `<script>`/`<style>`: CPython 3.12 drops that text, parser.py:158-159 and 245) -/
theorem coverage_complete (P : Params) (text : PStr) (hok : (run P text).flag = .ok) (hcd : (run P text).st.cd = none) :
    srcs (run P text).evs = text := by
  have h := coverage P text
  rcases run_rest P text hok with h0 | h0
  · rw [h0, List.append_nil] at h; exact h
  · exact absurd hcd h0

/-- **spans.** The span `[lo, hi)` the driver reports for an event (`tk spans`) is where its chunk sits in the text;
    spans of consecutive events are adjacent by construction of `spans`. -/
theorem span_is_chunk (P : Params) (text : PStr) (e : Ev) (lo hi : Nat) (h : (e, lo, hi) ∈ spans 0 (run P text).evs) :
    hi ≤ text.length ∧ (text.drop lo).take (hi - lo) = e.src := by
  obtain ⟨a, b, hab, hlo, hhi⟩ := spans_mem _ 0 e lo hi h
  have hc := coverage P text
  rw [hab] at hc
  simp only [srcs_append, srcs_cons, List.append_assoc] at hc
  simp only [Nat.zero_add] at hlo
  subst hlo hhi
  rw [← hc]
  refine ⟨by simp only [List.length_append]; omega, ?_⟩
  rw [List.drop_left, Nat.add_sub_cancel_left, List.take_left]

/-- **every callback's position.** Each event of the run was called back with `getpos()` = the 1-based line and
    0-based column of the start `lo` of its span. -/
theorem callback_position (P : Params) (text : PStr) (e : Ev) (lo hi : Nat) (h : (e, lo, hi) ∈ spans 0 (run P text).evs) :
    e.pos = lineCol text lo := by
  obtain ⟨a, b, hab, hlo, _⟩ := spans_mem _ 0 e lo hi h
  have hs := run_spec P text
  have hw := hs.wp
  have hc := hs.cover
  rw [hab] at hw hc
  rw [WP_append] at hw
  have hp : e.pos = posOf ([] ++ srcs a) := hw.2.1
  simp only [srcs_append, srcs_cons, List.append_assoc] at hc
  simp only [Nat.zero_add] at hlo
  rw [hp, hlo, ← hc]
  simp only [List.nil_append]
  exact (lineCol_prefix _ _).symm

/-- **start tags: `sourceline`/`sourcepos` are the position of the `<`.** Every `handle_starttag` /
    `handle_startendtag` callback is made with `getpos()` = (1-based line, 0-based column) of an index `lo` of the text
    at which a `<` stands — the `<` its start tag begins with (the span `[lo, hi)` is the text consumed for the tag). -/
theorem start_tag_position (P : Params) (text : PStr) (e : Ev) (lo hi : Nat) (h : (e, lo, hi) ∈ spans 0 (run P text).evs)
    (hst : isStart e.tok = true) : text[lo]? = some 60 ∧ e.pos = lineCol text lo := by
  refine ⟨?_, callback_position P text e lo hi h⟩
  have hchunk := (span_is_chunk P text e lo hi h).2
  obtain ⟨a, b, hab, _, _⟩ := spans_mem _ 0 e lo hi h
  have hmem : e ∈ (run P text).evs := by rw [hab]; simp
  have hhead := run_evOK P text e hmem hst
  rw [← hchunk] at hhead
  cases hd : text.drop lo with
  | nil => rw [hd] at hhead; simp at hhead
  | cons c t =>
    rw [hd] at hhead
    have hpos : 0 < hi - lo := by
      cases hn : hi - lo with
      | zero => rw [hn] at hhead; simp at hhead
      | succ n => omega
    rw [head_take_pos _ _ hpos] at hhead
    simp only [List.head?_cons, Option.some.injEq] at hhead
    subst hhead
    have : (text.drop lo)[0]? = some 60 := by rw [hd]; rfl
    simpa using this

/-- **data is faithful.** Every `handle_data` callback (in and outside CDATA mode, including the pieces `"<"`, `"&"`,
    `"&#"`, unterminated constructs flushed by `close()` and start tags handed out as text) carries exactly the text of
    its span. -/
theorem data_faithful (P : Params) (text : PStr) (e : Ev) (lo hi : Nat) (h : (e, lo, hi) ∈ spans 0 (run P text).evs)
    (d : PStr) (hd : e.tok = .data d) : d = (text.drop lo).take (hi - lo) := by
  obtain ⟨a, b, hab, _, _⟩ := spans_mem _ 0 e lo hi h
  have hmem : e ∈ (run P text).evs := by rw [hab]; simp
  rw [(span_is_chunk P text e lo hi h).2]
  exact (run_spec P text).data e hmem d hd

/-- **a continuing turn consumes.** A turn of the `while` loop after which the loop goes on leaves a strictly shorter
    buffer (the index strictly increases), and no turn ends in the model's `stuck` outcome. -/
theorem turn_consumes (P : Params) (end_ : Bool) (st : St) :
    (step P end_ st).2.2 ≠ some .stuck ∧ ((step P end_ st).2.2 = none → (step P end_ st).2.1.s.length < st.s.length) :=
  step_progress P end_ st

/-- **the fuel suffices.** `run` gives every loop `length + 1` turns of fuel (the `while` loop of `goahead`, the
    attribute loops of `locatestarttagend_tolerant` and `parse_starttag`); none of them ever runs out, and the dead end
    `gtpos = -1` of `parse_endtag` (parser.py:404) is unreachable: the outcome is never `stuck`. -/
theorem fuel_suffices (P : Params) (text : PStr) : (run P text).flag ≠ .stuck := run_not_stuck P text

/-! ### errors -/

/-- **where `error` can come from.** The tokenizer raises (`AssertionError`, which bs4 reports as
    `ParserRejectedMarkup`) only inside `parse_marked_section`: if `feed(text); close()` ends in `error`, the text
    contains `<![` somewhere. Contrapositive: a text without `<![` is tokenized to the end, whatever else it contains. -/
theorem error_only_from_marked_section (P : Params) (text : PStr) (h : (run P text).flag = .err) :
    ∃ i, (text.drop i).take 3 = [60, 33, 91] := by
  obtain ⟨i, hi⟩ := run_err P text h
  exact ⟨i, by simpa [sw] using hi⟩

/-- one loop turn: an `error` outcome means `parse_marked_section` raised at the index the turn had reached — its
    "expected name token" / "unknown status keyword" assertions (`_markupbase.py:389-392, 153-156`) -/
theorem turn_error_is_marked_section (P : Params) (end_ : Bool) (st : St) (h : (step P end_ st).2.2 = some .err) :
    ∃ j, (st.s.drop j).take 3 = [60, 33, 91] ∧ parseMarkedSection st.cd (st.s.drop j) = .err := by
  obtain ⟨j, h1, h2⟩ := step_err P end_ st h
  exact ⟨j, by simpa [sw] using h1, h2⟩

/-! ### the form C18 composes with: the positions of the start-tag callbacks, in order -/

/-- **the start-tag callbacks, in order, carry the line/column of the offsets of their `<`.** `startPositions` is the
    list of `(line, col)` of the `handle_starttag`/`handle_startendtag` callbacks in the stream the adapter receives. -/
theorem start_positions_are_offsets (P : Params) (text : PStr) :
    startPositions (callbacks (run P text)) = (startOffsets 0 (run P text).evs).map (lineCol text) ∧
    ∀ lo ∈ startOffsets 0 (run P text).evs, text[lo]? = some 60 := by
  constructor
  · have hs := run_spec P text
    have := startPositions_of_WP text (run P text).evs [] (run P text).st.s hs.wp (by simpa using hs.cover)
    simpa [callbacks] using this
  · intro lo hlo
    obtain ⟨e, hi, he, hst⟩ := startOffsets_mem _ 0 lo hlo
    exact (start_tag_position P text e lo hi he hst).1

/-! ### non-vacuity: concrete texts with a tag on line 2 -/

/-- `str.lower` on ASCII, `html.unescape` = identity: enough for the examples -/
def P0 : Params := { unescape := id, lower := asciiLower }

/-! ### round trips on a small well-formed grammar (names over `[a-z][a-z0-9]*`) -/

/-- **end tags round-trip.** `parse_endtag` on `</name>` (followed by anything) calls `handle_endtag(name)`, returns
    the index just after the `>`, and leaves CDATA mode off — outside CDATA mode, and inside it when `name` is the
    element that switched it on. (`P.lower name = name`: `str.lower` leaves `[a-z0-9]` alone.) -/
theorem endtag_roundtrip (P : Params) (cd : Option PStr) (name rest : PStr) (hn : NameOK name)
    (hl : P.lower name = name) (hcd : cd = none ∨ cd = some name) :
    parseEndTag P cd (writeEndTag name ++ rest) = .ok (.et name) (writeEndTag name).length none :=
  parseEndTag_write P cd name rest hn hl hcd

example : NameOK (BS.ofS "h1") := ⟨104, [49], by decide, by decide, by decide⟩
example : parseEndTag P0 none (BS.ofS "</h1>x") = .ok (.et (BS.ofS "h1")) 5 none := by decide

/-- **comments round-trip** (partial: bodies without `>`, or without `-`). `parse_comment` on `<!--body-->` calls
    `handle_comment(body)` and returns the index just after the `>`. Dashes in the body are harmless as long as no `>`
    follows (`commentclose = --\s*>` needs one): `<!--a--b--->` gives `a--b-`. Kept for its users; both cases are
    instances of the exact characterisation `comment_roundtrip` / `comment_roundtrip_iff` above (bodies that contain `>`
    and `-` are fine as long as `--\s*>` matches nowhere; with a match CPython ends the comment early:
    `<!--a-- >b-->` gives `a`, `comment_ends_at_first_close`). -/
theorem comment_roundtrip_partial (cd : Option PStr) (body rest : PStr)
    (hb : (∀ x ∈ body, x ≠ 62) ∨ (∀ x ∈ body, x ≠ 45)) :
    parseComment cd (writeComment body ++ rest) = .ok (.cm body) (writeComment body).length cd := by
  rcases hb with hb | hb
  · exact parseComment_write_nogt cd body rest hb
  · exact parseComment_write_partial cd body rest hb

example : parseComment none (BS.ofS "<!--a--b--->x") = .ok (.cm (BS.ofS "a--b-")) 12 none := by decide
example : parseComment none (BS.ofS "<!--a-- >b-->x") = .ok (.cm (BS.ofS "a")) 9 none := by decide
example : parseComment none (BS.ofS "<!-- a>b -->x") = .ok (.cm (BS.ofS " a>b ")) 12 none := by decide

/-! ### exact round trips of the delimiter-terminated constructs -/

/-- **`pattern.search` reports the LEAST matching offset.** For every anchored matcher `m` (the model's stand-in for a
    compiled pattern's `match`) and every string: `search m s = (p, l)` exactly when `p` is an offset of `s` (its end
    included), `m` succeeds at `p` with length `l`, and `m` fails at every smaller offset. -/
theorem search_least (m : PStr → Option Nat) (s : PStr) (p l : Nat) :
    search m s = some (p, l) ↔ p ≤ s.length ∧ m (s.drop p) = some l ∧ ∀ k, k < p → m (s.drop k) = none :=
  search_eq_some_iff m s p l

example : search mCommentClose (BS.ofS "a-b-- >c-->") = some (3, 4) := by decide
example : search mCommentClose (BS.ofS "a-b-- c") = none := by decide

/-- **comments round-trip, exactly.** `CommentBodyOK body` says, with the model's own matcher for `commentclose = --\s*>`,
    that in `body-->` the pattern matches at no offset inside the body (the only match is the writer's `-->`); it is
    decidable and independent of what follows the comment. Under it `parse_comment` on `<!--body-->rest` calls
    `handle_comment(body)` and returns the index just after the writer's `>`. -/
theorem comment_roundtrip (cd : Option PStr) (body rest : PStr) (hb : CommentBodyOK body) :
    parseComment cd (writeComment body ++ rest) = .ok (.cm body) (writeComment body).length cd :=
  parseComment_write_exact cd body rest hb

/-- **… and when the predicate fails the comment ends at the first close.** If `CommentBodyOK body` is false there is a
    FIRST offset `p` inside the body at which `--\s*>` matches `body-->` (length `l`, no match at any smaller offset);
    `handle_comment` gets the proper prefix `body[:p]` and the parser continues right after that match — whatever
    follows the writer's `-->`. -/
theorem comment_ends_at_first_close (cd : Option PStr) (body rest : PStr) (hb : ¬ CommentBodyOK body) :
    ∃ p l, p < body.length ∧ mCommentClose (body.drop p ++ [45, 45, 62]) = some l ∧
      (∀ k, k < p → mCommentClose (body.drop k ++ [45, 45, 62]) = none) ∧
      parseComment cd (writeComment body ++ rest) = .ok (.cm (body.take p)) (4 + p + l) cd :=
  parseComment_write_first_close cd body rest hb

/-- **the characterisation.** A written comment comes back as its body, ending at the writer's `>`, if and only if
    `CommentBodyOK body`. -/
theorem comment_roundtrip_iff (cd : Option PStr) (body rest : PStr) :
    parseComment cd (writeComment body ++ rest) = .ok (.cm body) (writeComment body).length cd ↔ CommentBodyOK body := by
  constructor
  · intro h
    by_cases hb : CommentBodyOK body
    · exact hb
    · obtain ⟨p, l, hp, _, _, he⟩ := comment_ends_at_first_close cd body rest hb
      rw [he] at h
      simp only [PR.ok.injEq, Tok.cm.injEq] at h
      have := congrArg List.length h.1
      simp at this; omega
  · exact comment_roundtrip cd body rest

/-- both sides of the predicate: `>` and `-` in the body without a close; a close with whitespace inside the body -/
example : CommentBodyOK (BS.ofS "a>b--c- -") := by decide
example : parseComment none (BS.ofS "<!--a>b--c- --->x") = .ok (.cm (BS.ofS "a>b--c- -")) 16 none := by decide
example : ¬ CommentBodyOK (BS.ofS "a-- \n>b") := by decide
example : parseComment none (BS.ofS "<!--a-- \n>b-->x") = .ok (.cm (BS.ofS "a")) 10 none := by decide
/-- the old partial theorem's two cases are instances -/
example : CommentBodyOK (BS.ofS "a--b-") ∧ CommentBodyOK (BS.ofS " a>b ") := by decide

/-- **processing instructions round-trip, exactly.** `parse_pi` on `<?body>rest` calls `handle_pi(body)` and returns the
    index just after the writer's `>` when the body has no `>` … -/
theorem pi_roundtrip (cd : Option PStr) (body rest : PStr) (hb : NoGt body) :
    parsePi cd (writePi body ++ rest) = .ok (.pi body) (writePi body).length cd :=
  parsePi_write_exact cd body rest hb

/-- … and otherwise `handle_pi` gets the proper prefix before the body's first `>` and the parser continues after it. -/
theorem pi_ends_at_first_gt (cd : Option PStr) (body rest : PStr) (hb : ¬ NoGt body) :
    ∃ a b, body = a ++ 62 :: b ∧ NoGt a ∧ parsePi cd (writePi body ++ rest) = .ok (.pi a) (writePi a).length cd :=
  parsePi_write_first_gt cd body rest hb

example : NoGt (BS.ofS "xml version='1.0'?") := by decide
example : parsePi none (BS.ofS "<?xml version='1.0'?>x") = .ok (.pi (BS.ofS "xml version='1.0'?")) 21 none := by decide
example : ¬ NoGt (BS.ofS "a>b") := by decide
example : parsePi none (BS.ofS "<?a>b>x") = .ok (.pi (BS.ofS "a")) 4 none := by decide

/-- **`<!DOCTYPE …>` round-trips, exactly.** For every spelling `kw` of the keyword (`str.lower` gives `doctype`; ASCII
    lowering suffices, see `stdlib_facts` in the harness) `parse_html_declaration` on `<!kw body>rest` calls
    `handle_decl(kw + body)` and returns the index just after the writer's `>` when the body has no `>` … -/
theorem doctype_roundtrip (cd : Option PStr) (kw body rest : PStr) (hkw : asciiLower kw = kwdoctype) (hb : NoGt body) :
    parseHtmlDeclaration cd (writeDoctype kw body ++ rest) = .ok (.dl (kw ++ body)) (writeDoctype kw body).length cd :=
  parseHtmlDeclaration_write_exact cd kw body rest hkw hb

/-- … and otherwise `handle_decl` gets the keyword and the proper prefix before the body's first `>`. -/
theorem doctype_ends_at_first_gt (cd : Option PStr) (kw body rest : PStr) (hkw : asciiLower kw = kwdoctype)
    (hb : ¬ NoGt body) :
    ∃ a b, body = a ++ 62 :: b ∧ NoGt a ∧
      parseHtmlDeclaration cd (writeDoctype kw body ++ rest) = .ok (.dl (kw ++ a)) (writeDoctype kw a).length cd :=
  parseHtmlDeclaration_write_first_gt cd kw body rest hkw hb

example : asciiLower (BS.ofS "DocType") = kwdoctype ∧ NoGt (BS.ofS " html") := by decide
example : parseHtmlDeclaration none (BS.ofS "<!DocType html>x") = .ok (.dl (BS.ofS "DocType html")) 15 none := by decide
example : ¬ NoGt (BS.ofS " a [<!ENTITY b \"c\">]") := by decide
example : parseHtmlDeclaration none (BS.ofS "<!DOCTYPE a [<!ENTITY b \"c\">]>x") =
    .ok (.dl (BS.ofS "DOCTYPE a [<!ENTITY b \"c\"")) 28 none := by decide

/-- **CDATA marked sections round-trip, exactly.** `CdataBodyOK body`: in `body]]>` the pattern
    `_markedsectionclose = ]\s*]\s*>` (whitespace allowed between the brackets!) matches at no offset inside the body.
    Under it `parse_marked_section` on `<![CDATA[body]]>rest` calls `unknown_decl("CDATA[" + body)` and returns the index
    just after the writer's `>`. -/
theorem cdata_roundtrip (cd : Option PStr) (body rest : PStr) (hb : CdataBodyOK body) :
    parseMarkedSection cd (writeCdata body ++ rest) = .ok (.ud (cdataKw ++ body)) (writeCdata body).length cd :=
  parseMarkedSection_write_exact cd body rest hb

/-- … and otherwise `unknown_decl` gets `"CDATA[" + body[:p]` for the FIRST offset `p` of the body at which
    `]\s*]\s*>` matches `body]]>`, and the parser continues after that match. -/
theorem cdata_ends_at_first_close (cd : Option PStr) (body rest : PStr) (hb : ¬ CdataBodyOK body) :
    ∃ p l, p < body.length ∧ mMarkedClose (body.drop p ++ [93, 93, 62]) = some l ∧
      (∀ k, k < p → mMarkedClose (body.drop k ++ [93, 93, 62]) = none) ∧
      parseMarkedSection cd (writeCdata body ++ rest) = .ok (.ud (cdataKw ++ body.take p)) (9 + p + l) cd :=
  parseMarkedSection_write_first_close cd body rest hb

example : CdataBodyOK (BS.ofS "a>b]]c] ]") := by decide
example : parseMarkedSection none (BS.ofS "<![CDATA[a>b]]c] ]]]>x") = .ok (.ud (BS.ofS "CDATA[a>b]]c] ]")) 21 none := by decide
example : ¬ CdataBodyOK (BS.ofS "a] \n] >b") := by decide
example : parseMarkedSection none (BS.ofS "<![CDATA[a] \n] >b]]>x") = .ok (.ud (BS.ofS "CDATA[a")) 16 none := by decide

/-- **character data round-trips, exactly (the `interesting` scan, `[&<]`).** One turn of the loop outside CDATA mode on
    `text ++ rest` — `text` non-empty without `<`/`&`, `rest` empty or beginning with `<`/`&` — hands out exactly `text` in
    one `handle_data` call, stamped with the position before it, and then acts on `rest` at the position after it. -/
theorem chardata_roundtrip (P : Params) (end_ : Bool) (pos : Nat × Nat) (text rest : PStr) (ht : TextOK text)
    (hne : text ≠ []) (hr : ∀ c, rest.head? = some c → isPlain c = false) :
    step P end_ ⟨text ++ rest, pos, none⟩ =
      if rest.isEmpty then ([⟨.data text, text, pos⟩], ⟨[], updatepos pos text, none⟩, some .ok)
      else applyAct [⟨.data text, text, pos⟩] rest (updatepos pos text) none (chooseAct P end_ none rest) :=
  step_text P end_ pos text rest ht hne hr

/-- … and a text that does contain `<` or `&` is cut there: the turn's data callback carries only the proper prefix
    before the first `<`/`&` (whatever comes after). -/
theorem chardata_ends_at_first_special (P : Params) (end_ : Bool) (pos : Nat × Nat) (a b rest : PStr) (c : Nat)
    (ha : TextOK a) (hne : a ≠ []) (hc : isPlain c = false) :
    (step P end_ ⟨(a ++ c :: b) ++ rest, pos, none⟩).1.head? = some ⟨.data a, a, pos⟩ := by
  have h := step_text P end_ pos a (c :: (b ++ rest)) ha hne (by intro x hx; simp at hx; subst hx; exact hc)
  have e : (a ++ c :: b) ++ rest = a ++ c :: (b ++ rest) := by simp
  rw [e, h]
  simp only [List.isEmpty_cons, Bool.false_eq_true, if_false]
  exact applyAct_head _ _ _ _ _

/-- a whole document without `<`/`&` is one data callback at line 1, column 0, and nothing is left. (At this level there is
    no converse: `close()` flushes an unterminated construct such as a lone `<` as one data callback as well.) -/
theorem chardata_whole_text (P : Params) (text : PStr) (ht : TextOK text) (hne : text ≠ []) :
    (run P text).evs = [⟨.data text, text, (1, 0)⟩] ∧ (run P text).st = ⟨[], updatepos (1, 0) text, none⟩ ∧
      (run P text).flag = .ok :=
  run_text P text ht hne

example : TextOK (BS.ofS "a>b;\n") ∧ BS.ofS "a>b;\n" ≠ [] := by decide
example : ¬ TextOK (BS.ofS "a& b") := by decide
example : isPlain 38 = false ∧ isPlain 60 = false ∧ TextOK (BS.ofS "a") := by decide
example : (step P0 false ⟨BS.ofS "a& b<i>", (1, 0), none⟩).1.head? = some ⟨.data (BS.ofS "a"), BS.ofS "a", (1, 0)⟩ := by decide
example : (run P0 (BS.ofS "a& b")).evs.map (·.tok) = [.data (BS.ofS "a"), .data (BS.ofS "&"), .data (BS.ofS " b")] := by decide
example : (run P0 (BS.ofS "<")).evs.map (·.tok) = [.data (BS.ofS "<")] := by decide

/-- **start tags round-trip.** For the writer `writeTag name attrs slash` = `<name k="w" j …>` or `<name k="w" j …/>`
    (names and attribute names over `[a-z][-.:_a-z0-9]*`, written values `w` without `"`, an attribute without value as
    its bare name; `str.lower` leaves the names alone), `parse_starttag` calls `handle_starttag` / `handle_startendtag`
    with the name and exactly the written attributes in order — value: quotes stripped and `html.unescape`d (`valOf`),
    `None` where none was written —, returns the index just after the `>`, and switches CDATA mode on exactly for a
    `<script>`/`<style>` start tag. -/
theorem starttag_roundtrip (P : Params) (cd : Option PStr) (name rest : PStr) (attrs : List (PStr × Option PStr))
    (slash : Bool) (hn : NameOK name) (hl : P.lower name = name) (ha : ∀ kv ∈ attrs, AttrOK kv)
    (hP : ∀ kv ∈ attrs, P.lower kv.1 = kv.1) :
    parseStartTag P cd (writeTag name attrs slash ++ rest) =
      .ok (startTok slash name (attrs.map fun kv => (kv.1, kv.2.map (valOf P)))) (writeTag name attrs slash).length
        (if slash then cd else if cdataContentElements.contains name then some name else cd) :=
  parseStartTag_write P cd name rest attrs slash hn hl ha hP

example : writeTag (BS.ofS "a") [(BS.ofS "k", some (BS.ofS "v w")), (BS.ofS "j2", none)] true = BS.ofS "<a k=\"v w\" j2/>" := by decide
example : AttrOK (BS.ofS "j-2", some (BS.ofS "v w>")) := ⟨⟨106, [45, 50], by decide, by decide, by decide⟩, by decide⟩
example : parseStartTag P0 none (BS.ofS "<a k=\"v w\" j2/>x") =
    .ok (.se (BS.ofS "a") [(BS.ofS "k", some (BS.ofS "v w")), (BS.ofS "j2", none)]) 15 none := by decide
example : parseStartTag P0 none (BS.ofS "<h1>x") = .ok (.st (BS.ofS "h1") []) 4 none := by decide
example : parseStartTag P0 none (BS.ofS "<style>x") = .ok (.st (BS.ofS "style") []) 7 (some (BS.ofS "style")) := by decide
/-- other quoting (outside the writer's grammar): checked on a concrete tag -/
example : parseStartTag P0 none (BS.ofS "<a k=\"v\" j='w'>x") =
    .ok (.st (BS.ofS "a") [(BS.ofS "k", some (BS.ofS "v")), (BS.ofS "j", some (BS.ofS "w"))]) 15 none := by decide



/-- `"ab\n <p id=x>c</p>"`: data, start tag at line 2 column 1 (offset 4), data, end tag -/
example : (run P0 (BS.ofS "ab\n <p id=x>c</p>")).evs.map (fun e => (e.tok, e.pos)) =
    [(.data (BS.ofS "ab\n "), (1, 0)), (.st (BS.ofS "p") [(BS.ofS "id", some (BS.ofS "x"))], (2, 1)),
     (.data (BS.ofS "c"), (2, 9)), (.et (BS.ofS "p"), (2, 10))] := by decide
example : startOffsets 0 (run P0 (BS.ofS "ab\n <p id=x>c</p>")).evs = [4] := by decide
example : lineCol (BS.ofS "ab\n <p id=x>c</p>") 4 = (2, 1) := by decide
example : (run P0 (BS.ofS "ab\n <p id=x>c</p>")).flag = .ok ∧ (run P0 (BS.ofS "ab\n <p id=x>c</p>")).st.cd = none := by decide
/-- a self-closing tag on line 2, after a comment that contains a newline -/
example : (spans 0 (run P0 (BS.ofS "<!--\n--><br/>")).evs).map (fun x => (x.1.tok, x.1.pos, x.2)) =
    [(.cm [10], (1, 0), 0, 8), (.se (BS.ofS "br") [], (2, 3), 8, 13)] := by decide
/-- the hypotheses of `coverage_complete` matter: an unterminated `<script>` keeps CDATA mode on and its text is lost -/
example : (run P0 (BS.ofS "<script>x")).st.s = BS.ofS "x" ∧ (run P0 (BS.ofS "<script>x")).st.cd = some (BS.ofS "script") := by decide
/-- the two silent stretches: `</>` and the `&` of a trailing incomplete reference -/
example : (run P0 (BS.ofS "</>x&a")).evs.map (·.tok) = [.skip, .data (BS.ofS "x"), .skip, .data (BS.ofS "a")] := by decide
/-- the parser raises on an unknown marked-section keyword -/
example : (run P0 (BS.ofS "<![foo]>")).flag = .err := by decide
/-- a continuing turn: one start tag consumed, three characters -/
example : (step P0 false (init (BS.ofS "<a>x"))).2.2 = none ∧ (step P0 false (init (BS.ofS "<a>x"))).2.1.s = BS.ofS "x" := by decide

end BS.Props.TK
