import BSModel.Driver.C20
/-! line-protocol driver: one request per line on stdin, one canonical reply per line on stdout -/
open BS.Drv

def dispatch (line : String) : String :=
  let toks := (line.splitOn " ").filter (· ≠ "")
  match toks with
  | [] => "bad-op"
  | "c20" :: rest => C20.handle rest
  | _ => "bad-op"

partial def loop (h : IO.FS.Stream) (out : IO.FS.Stream) : IO Unit := do
  let line ← h.getLine
  if line.isEmpty then return ()
  let l := if line.endsWith "\n" then (line.dropEnd 1).toString else line
  out.putStrLn (dispatch l)
  loop h out

def main : IO Unit := do
  let out ← IO.getStdout
  loop (← IO.getStdin) out
  out.flush
