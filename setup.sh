#!/bin/sh
# Run once after a fresh restore, offline: generate tables from /repo and build the Lean project.
# A property whose theorems do not build does not fail the setup: its own check reports that.
cd "$(dirname "$0")"
export PYTHONPATH="${VERIF_REPO:-/repo}:$PYTHONPATH"
/venv/bin/python translate/gen_tables.py || exit 1
/venv/bin/python tools/gen_main.py || exit 1
cd lean
lake build BSModel.AuditCmd bsdriver || echo "setup: driver build failed (checks will report)"
for f in BSModel/Props/C*.lean; do
  m=$(basename "$f" .lean)
  lake build "BSModel.Props.$m" >/dev/null 2>&1 || echo "setup: BSModel.Props.$m did not build (its check will report)"
done
exit 0
