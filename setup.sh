#!/bin/sh
# Run once after a fresh restore, offline: generate tables from /repo and build the Lean project.
set -e
cd "$(dirname "$0")"
export PYTHONPATH="${VERIF_REPO:-/repo}:$PYTHONPATH"
/venv/bin/python translate/gen_tables.py
cd lean
lake build
