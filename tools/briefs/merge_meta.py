import json,sys
r=json.load(open(sys.argv[1] if len(sys.argv)>1 else '/root/scratch/r6/res_seed.json'))
r={k:v for k,v in r.items() if not k.startswith(('free','benign')) and 'error' not in v}
for sid,out in r.items():
    f=f'/verif/seeded/{sid}/meta.json'
    m=json.load(open(f))
    m.setdefault('check_results',{}).setdefault('quick',{}).update(out)
    m['what_was_run']=f"git worktree of /repo HEAD + git apply seeded/{sid}/patch.diff; VERIF_REPO=<worktree> ./check <prop> --tier quick (a clone of /verif per lane); worktree removed"
    json.dump(m,open(f,'w'),indent=1)
print(len(r))
