import json, subprocess, os
props=[json.loads(l) for l in open('/verif/properties.jsonl')]
def q(p):
    x=p['quantifier']; return x['text'] if isinstance(x,dict) else str(x)
# fix seed briefs: replace dict-dump quantifier by text
for p in props:
    f=f"/tmp/seed6/BRIEF-{p['id']}.md"; s=open(f).read()
    import re
    s=re.sub(r"\nQuantifier: .*?\n---\n", "\nQuantifier: "+q(p).replace('\\','\\\\')+"\n---\n", s, count=1, flags=re.S)
    open(f,"w").write(s)
B = """You are testing a verification effort for Beautiful Soup (bs4 4.13, pure Python) for FALSE ALARMS: you produce HARMLESS changes.

Your own scratch git worktree of the library is at {wt} (a detached worktree of /repo's HEAD). Work ONLY there: never edit, run
git commands in, or write anything to /repo itself, and do not look at /verif (it is off limits for this task). Python is
/venv/bin/python (3.12); to import your patched copy use PYTHONPATH={wt}. Only the html.parser tree builder is usable. No network.

The semantic property that must KEEP holding (this text is all you get):

--- property {id}: {title}
{statement}
Quantifier: {quantifier}
---
(anchors, for orientation: {anchors})

Task: produce {n} DIFFERENT changes to the library source (not tests) in the code this property anchors in, each of which
  * is a realistic maintainer commit: a behaviour-preserving refactoring (loop rewritten, helper extracted or inlined, local
    variables renamed, independent statements reordered, a comprehension instead of a loop, an early return restructured, a
    constant table re-laid-out or built differently but with the same content, a private helper renamed at all its uses, type
    annotations/docstrings/comments changed, an isinstance check reordered), or a change of behaviour the property clearly
    leaves free (wording of a warning or exception message, a new private attribute, an extra keyword with a default that
    keeps the old behaviour, internal bookkeeping such as debugging fields),
  * keeps the property TRUE for every input — be careful and conservative: do not change any observable the property talks about,
    not even in corner cases (None vs '', identity vs equality, order of results, exception types, truthiness of empty values),
  * keeps the existing test suite passing: cd {wt} && /venv/bin/python -m pytest -q -p no:cacheprovider bs4/tests -> 620 passed,
  * is non-trivial (touches roughly 5-30 lines of real code in the functions the anchors name), and each of the {n} changes
    touches different functions.

For each change k = 1..{n} write a directory {out}/m<k>/ containing
  patch.diff   `git -C {wt} diff` of that change alone against HEAD (must apply with `git apply` to a clean checkout)
  note.md      what was changed and the argument why no observable behaviour relevant to the property changes
  equiv.py     a small differential program, run as `/venv/bin/python equiv.py <tree_a> <tree_b>`, that exercises the changed
               functions on a few hundred varied inputs in two subprocesses (one per tree, PYTHONPATH set to the tree) and
               exits 0 iff all the outputs are identical. Run it with <tree_a>=/repo (read-only use is fine) and <tree_b>={wt}: must exit 0.

After saving each patch, revert with `git -C {wt} checkout -- .`. Keep the worktree clean at the end.
Final message: one line per change (file/function touched, kind of refactoring)."""
for p in props:
    wt=f"/tmp/benign/{p['id']}"; out=f"/tmp/benign/{p['id']}.out"
    if not os.path.exists(wt):
        subprocess.run(f"git -C /repo worktree add -q --detach {wt} HEAD",shell=True,check=True)
    os.makedirs(out,exist_ok=True)
    open(f"/tmp/benign/BRIEF-{p['id']}.md","w").write(B.format(wt=wt,out=out,id=p['id'],title=p['title'],statement=p['statement'],quantifier=q(p),anchors=json.dumps(p['anchors'])[:900],n=2))
