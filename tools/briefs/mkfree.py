import json,os
extra={"C01C02":["C11"],"C03C04":["C16"],"C05C14":["C15"],"C06C07":["C19"],"C08C09":["C05","C15"],"C10C13":["C16"],"C11C12":["C13"],"C15C17":["C09","C12"],"C16C18":["C04","C12"],"C19C20":["C07","C06"]}
done=json.load(open('/root/scratch/r6/res_free.json')) if os.path.exists('/root/scratch/r6/res_free.json') else {}
jobs=[]
for g,ex in extra.items():
    for k in (1,2,3):
        d=f"/tmp/free/{g}.out/m{k}"
        if os.path.exists(d+"/patch.diff") and f"free-{g}-m{k}" not in done:
            jobs.append({"id":f"free-{g}-m{k}","patch":d+"/patch.diff","props":[g[:3],g[3:]]+ex})
json.dump(jobs,open('/root/scratch/r6/jobs_free.json','w')); print(len(jobs))
