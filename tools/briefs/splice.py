#!/usr/bin/env python3
"""splice.py <PROP> <file>: append the text of <file> as a new paragraph at the end of the §7 section of PROP in /verif/DESIGN.md"""
import re,sys
prop,f=sys.argv[1],sys.argv[2]
p='/verif/DESIGN.md'; s=open(p).read()
m=re.search(r'^### '+prop+r' — .*$', s, flags=re.M)
assert m, prop
n=re.search(r'^(### C\d\d — |## 8\. )', s[m.end():], flags=re.M)
end=m.end()+n.start()
txt=open(f).read().strip()+"\n\n"
s=s[:end].rstrip("\n")+"\n\n"+txt+s[end:]
open(p,'w').write(s)
print("spliced",prop,len(txt))
