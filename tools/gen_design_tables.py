#!/usr/bin/env python3
"""Regenerate the two data tables of DESIGN.md from the committed data: §8.0 (known_findings.json) and §12 (seeded/*/meta.json).
The tables sit between `<!-- BEGIN:<name> -->` / `<!-- END:<name> -->` markers; everything else in DESIGN.md is hand-written."""
import json, re, sys
from pathlib import Path

V = Path(__file__).resolve().parent.parent


def findings_table():
    kf = json.loads((V / "known_findings.json").read_text())
    items = kf["findings"] if isinstance(kf, dict) else kf
    out = ["| prop | id | status | what fails |", "|---|---|---|---|"]
    for f in items:
        st = f"fixed in `{f.get('commit')}`" if f["status"] == "fixed" else "**known finding**"
        what = f.get("what") or f.get("entry", "")
        if f["status"] == "fixed" and f.get("entry"):
            what = re.sub(r"^fixed: property=\S+ \S+ ", "", f["entry"])
        what = what.replace("|", "/").replace("\n", " ")
        out.append(f"| {f['property']} | `{f['id']}` | {st} | {what[:260]}{'…' if len(what) > 260 else ''} |")
    return "\n".join(out)


def seeded_table():
    out = ["| id | property | quick check | what the change is (from the author's note) |", "|---|---|---|---|"]
    n = caught = nfi = 0
    for d in sorted((V / "seeded").iterdir()):
        mp = d / "meta.json"
        if not mp.exists():
            continue
        m = json.loads(mp.read_text())
        if m.get("obsolete"):
            out.append(f"| `{m['id']}` | {m['property']} | obsolete: no longer breaks the property on the repaired tree | {(m.get('note_first_lines') or '').replace(chr(10), ' ').replace('|', '/')[:170]} |")
            continue
        res = (m.get("check_results", {}).get("quick", {}) or {}).get(m["property"], {})
        rc = res.get("rc")
        if rc == 1 and res.get("with_failing_input", 0) > 0:
            verdict = "caught"
            caught += 1
        elif rc == 1:
            verdict = "caught (no-failing-input-found)"
            nfi += 1
        else:
            verdict = f"MISSED (rc={rc})"
        n += 1
        note = (m.get("note_first_lines") or "").replace("\n", " ").replace("|", "/")
        out.append(f"| `{m['id']}` | {m['property']} | {verdict} | {note[:170]} |")
    head = f"{n} seeded changes; {caught} caught with a concrete failing input, {nfi} caught as no-failing-input-found, {n - caught - nfi} missed.\n\n"
    return head + "\n".join(out)


def main():
    p = V / "DESIGN.md"
    s = p.read_text()
    for name, fn in (("findings", findings_table), ("seeded", seeded_table)):
        b, e = f"<!-- BEGIN:{name} -->", f"<!-- END:{name} -->"
        if b not in s or e not in s:
            print("marker missing:", name); sys.exit(1)
        i, j = s.index(b) + len(b), s.index(e)
        s = s[:i] + "\n" + fn() + "\n" + s[j:]
    p.write_text(s)
    print("DESIGN.md tables regenerated")


if __name__ == "__main__":
    main()
