#!/usr/bin/env python3
"""Run jobs (seeded or benign patches) against checks in parallel lanes, each lane = its own clone of /verif (own .lake, own Gen).
usage: lanes.py <jobs.json> <results.json> [nlanes]
job = {"id":..., "patch":..., "props":[...]}"""
import json, os, subprocess, sys, threading, queue, time, re
jobs=json.load(open(sys.argv[1])); resf=sys.argv[2]; n=int(sys.argv[3]) if len(sys.argv)>3 else 4
def sh(c, **kw): return subprocess.run(c, shell=True, capture_output=True, text=True, **kw)
q=queue.Queue()
for j in jobs: q.put(j)
results={}
if os.path.exists(resf): results=json.load(open(resf))
lock=threading.Lock()
def lane(k):
    L=f"/tmp/vr/L{k+int(os.environ.get('LANE_OFFSET',0))}"
    if not os.path.exists(L):
        sh(f"git clone -q /verif {L} && rsync -a /verif/lean/.lake {L}/lean/ && rsync -a /verif/lean/BSModel/Gen {L}/lean/BSModel/ && cp /verif/lean/Main.lean {L}/lean/ 2>/dev/null")
    else:
        sh(f"cd {L} && git checkout -q -- . && git pull -q /verif main")
    while True:
        try: j=q.get_nowait()
        except queue.Empty: return
        wt=f"/tmp/vr/wt-{j['id']}"
        sh(f"git -C /repo worktree remove --force {wt}; git -C /repo worktree add -q --detach {wt} HEAD")
        a=sh(f"git -C {wt} apply {j['patch']}")
        out={}
        if a.returncode!=0:
            out={"error":"patch does not apply: "+a.stderr[-200:]}
        else:
            for p in j["props"]:
                t0=time.time()
                r=sh(f"cd {L} && VERIF_REPO={wt} VERIF_SEED={os.environ.get('VERIF_SEED','0')} ./check {p} --tier quick")
                lines=[l for l in r.stdout.splitlines() if l.startswith("VIOLATION")]
                real=[l for l in lines if "no-failing-input-found" not in l]
                o={"rc":r.returncode,"violation_lines":len(lines),"with_failing_input":len(real),"first":(real or lines or [""])[0],
                   "summary":(r.stdout.strip().splitlines() or [""])[-1][:300],"wall_s":round(time.time()-t0,1)}
                m=re.search(r"replay=(\S+)", o["first"])
                if m and os.path.exists(m.group(1)):
                    try:
                        v=json.load(open(m.group(1))); o["what"]=str(v.get("what",""))[:400]; o["stream"]=v.get("stream")
                    except Exception: pass
                if r.returncode not in (0,1): o["stderr"]=r.stderr[-500:]
                out[p]=o
        sh(f"git -C /repo worktree remove --force {wt}")
        sh(f"cd {L} && git checkout -q -- evidence")
        with lock:
            results[j["id"]]=out
            json.dump(results, open(resf,"w"), indent=1)
            print(j["id"], {p:(o.get("rc"),o.get("with_failing_input")) if isinstance(o,dict) else o for p,o in out.items()} if "error" not in out else out, flush=True)
ts=[threading.Thread(target=lane,args=(k,)) for k in range(n)]
[t.start() for t in ts]; [t.join() for t in ts]
