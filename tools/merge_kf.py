#!/usr/bin/env python3
"""Resolve a merge conflict in known_findings.json by taking the union of entries (by id)."""
import json, subprocess, sys
ours = json.loads(subprocess.check_output(["git", "show", ":2:known_findings.json"]))
theirs = json.loads(subprocess.check_output(["git", "show", ":3:known_findings.json"]))
ids = {f["id"] for f in ours["findings"]}
for f in theirs["findings"]:
    if f["id"] not in ids:
        ours["findings"].append(f)
        print("added", f["id"])
json.dump(ours, open("known_findings.json", "w"), indent=1)
