#!/usr/bin/env python3
"""Regenerates /verif/MANIFEST.json from the table below (one entry per property with a working check)."""
import json
from pathlib import Path

VERIF = Path(__file__).resolve().parent.parent
ALL = [f"C{i:02d}" for i in range(1, 21)]

COMMON_NOTE = ("Trusted base: Lean 4.33 kernel (+ leanchecker in the thorough tier); axioms audited per run "
               "(only propext, Classical.choice, Quot.sound; no sorry/native_decide/bv_decide/custom axioms); "
               "translate/gen_tables.py for generated data; the correspondence harness and compiled bsdriver. "
               "Hand-written code-mirror models are tied to /repo by differential runs on every check (counts in evidence). ")

CHECKS = {
    "C20": dict(
        text=("Lean theorems: for every registration history of feature sets and every request list, the code-mirror of "
              "TreeBuilderRegistry.register/lookup computes the documented choice (lookup_spec), with its meaning spelled out "
              "(lookup_some_meaning, lookup_none_iff, unoffered_ignored, lookup_no_features, default_falls_back) and the constructor "
              "decision (fnf_iff_none, explicit_builder_bypasses, kwargs_forwarded); plus kernel-decided obligations over the shipped "
              "registry generated from the live code. Tie: exhaustive correspondence of the real registry with the Lean mirror and spec "
              "over all histories of <=3 (thorough <=4) builders x all request lists <=3, and the real constructor against a private registry."),
        design="7/C20",
        note="Feature lists without repeats (true of every shipped builder). Constructor cases swap a private registry in for bs4.builder_registry.",
        technique="Lean 4 refinement proof (code-mirror = spec) + exhaustive small-scope correspondence with the real registry",
    ),
}

IN_PROGRESS_REASON = "check not built yet in this session (work in progress; see DESIGN.md section 7 for the plan)"


def main():
    checks = []
    for pid in ALL:
        if pid not in CHECKS:
            continue
        c = CHECKS[pid]
        checks.append({
            "property_id": pid,
            "quick_cmd": f"./check {pid} --tier quick",
            "thorough_cmd": f"./check {pid} --tier thorough",
            "evidence_file": f"/verif/evidence/{pid}.json",
            "replay_cmd_template": f"./check {pid} --replay {{path}}",
            "engine": "lean4-bsmodel",
            "level_claimed": {"category": "proof", "text": c["text"], "design_ref": c["design"]},
            "level_note": COMMON_NOTE + c["note"],
            "technique": c["technique"],
        })
    m = {
        "version": 1,
        "setup_cmd": "./setup.sh",
        "hooks": {
            "guard": "LIVE_CLONES_BEAUTIFULSOUP_VERIF",
            "enable": "no instrumentation hooks exist in /repo: every observation is taken at the public API, through harness TreeBuilder subclasses, sys.setprofile or subprocess environments; the checks export LIVE_CLONES_BEAUTIFULSOUP_VERIF=1 anyway",
            "baseline_off_cmd": "cd /repo && /venv/bin/python -m pytest -ra -q -p no:cacheprovider --timeout=900 --continue-on-collection-errors",
            "source_commits": [],
            "add_only": True,
        },
        "engines": [{
            "name": "lean4-bsmodel",
            "path": "/verif/lean",
            "serves_properties": [p for p in ALL if p in CHECKS],
            "kind_free_text": "Lean 4 models (BSModel/Model), helper lemmas (Proofs), property theorems (Props/Cxx.lean), generated tables (Gen, from live bs4), line-protocol driver (Main.lean -> bsdriver) used by the Python correspondence harness (harness/)",
        }],
        "checks": checks,
        "notes": "Every check: regenerate Gen tables from /repo, lake build the property's theorems + driver, audit axioms, run corpus + generated correspondence cases (real bs4 in-process vs Lean driver) and the direct property oracle; see DESIGN.md.",
        "not_applicable": [{"property_id": p, "reason": IN_PROGRESS_REASON} for p in ALL if p not in CHECKS],
    }
    (VERIF / "MANIFEST.json").write_text(json.dumps(m, indent=1) + "\n")
    print("wrote MANIFEST.json with", len(checks), "checks")


if __name__ == "__main__":
    main()
