#!/venv/bin/python
"""Regenerates /verif/MANIFEST.json from the table below (one entry per property with a working check)."""
import json
from pathlib import Path

VERIF = Path(__file__).resolve().parent.parent
ALL = [f"C{i:02d}" for i in range(1, 21)]

COMMON_NOTE = ("Trusted base: Lean 4.33 kernel (+ leanchecker in the thorough tier); axioms audited per run "
               "(only propext, Classical.choice, Quot.sound; no sorry/native_decide/bv_decide/custom axioms); "
               "translate/gen_tables.py for generated data; the correspondence harness and compiled bsdriver. "
               "Hand-written code-mirror models are tied to /repo by differential runs on every check (counts in evidence). ")

def discover():
    """Every harness/cXX.py carries a literal `MANIFEST = dict(text=..., design=..., note=..., technique=...)`."""
    import ast
    out = {}
    for f in sorted((VERIF / "harness").glob("c[0-9][0-9].py")):
        tree = ast.parse(f.read_text())
        for node in tree.body:
            if isinstance(node, ast.Assign) and getattr(node.targets[0], "id", None) == "MANIFEST":
                call = node.value
                out[f.stem.upper()] = {k.arg: ast.literal_eval(k.value) for k in call.keywords}
    return out


CHECKS = discover()

IN_PROGRESS_REASON = "check not built yet in this session (work in progress; see DESIGN.md section 7 for the plan)"


def main():
    checks = []
    for pid in ALL:
        if pid not in CHECKS:
            continue
        c = CHECKS[pid]
        checks.append({
            "property_id": pid,
            "quick_cmd": f"./check {pid} --tier quick",
            "thorough_cmd": f"./check {pid} --tier thorough",
            "evidence_file": f"/verif/evidence/{pid}.json",
            "replay_cmd_template": f"./check {pid} --replay {{path}}",
            "engine": "lean4-bsmodel",
            "level_claimed": {"category": "proof", "text": c["text"], "design_ref": c["design"]},
            "level_note": COMMON_NOTE + c["note"],
            "technique": c["technique"],
        })
    m = {
        "version": 1,
        "setup_cmd": "./setup.sh",
        "hooks": {
            "guard": "LIVE_CLONES_BEAUTIFULSOUP_VERIF",
            "enable": "no instrumentation hooks exist in /repo: every observation is taken at the public API, through harness TreeBuilder subclasses, sys.setprofile or subprocess environments; the checks export LIVE_CLONES_BEAUTIFULSOUP_VERIF=1 anyway",
            "baseline_off_cmd": "cd /repo && /venv/bin/python -m pytest -ra -q -p no:cacheprovider --timeout=900 --continue-on-collection-errors",
            "source_commits": [],
            "add_only": True,
        },
        "engines": [{
            "name": "lean4-bsmodel",
            "path": "/verif/lean",
            "serves_properties": [p for p in ALL if p in CHECKS],
            "kind_free_text": "Lean 4 models (BSModel/Model), helper lemmas (Proofs), property theorems (Props/Cxx.lean), generated tables (Gen, from live bs4), line-protocol driver (Main.lean -> bsdriver) used by the Python correspondence harness (harness/)",
        }],
        "checks": checks,
        "notes": "Every check: regenerate Gen tables from /repo, lake build the property's theorems + driver, audit axioms, run corpus + generated correspondence cases (real bs4 in-process vs Lean driver) and the direct property oracle; see DESIGN.md.",
        "not_applicable": [{"property_id": p, "reason": IN_PROGRESS_REASON} for p in ALL if p not in CHECKS],
    }
    (VERIF / "MANIFEST.json").write_text(json.dumps(m, indent=1) + "\n")
    print("wrote MANIFEST.json with", len(checks), "checks")


if __name__ == "__main__":
    main()
