#!/bin/sh
# run every registered check once (tier = $1, default quick) and print one summary line per property
cd "$(dirname "$0")/.."
tier=${1:-quick}
for p in C01 C02 C03 C04 C05 C06 C07 C08 C09 C10 C11 C12 C13 C14 C15 C16 C17 C18 C19 C20; do
  s=$(date +%s)
  out=$(./check $p --tier $tier 2>&1)
  rc=$?
  e=$(date +%s)
  echo "$p rc=$rc $((e-s))s $(echo "$out" | grep -c '^VIOLATION') violation lines, $(echo "$out" | grep -c '^KNOWN-FINDING') known | $(echo "$out" | tail -1 | cut -c1-170)"
done
