#!/usr/bin/env python3
"""Confirm a seeded change and run the checks against it.

usage: tools/run_seeded.py import <property> <dir with patch.diff demo.py note.md> <new id>   -> copies into seeded/<id>/ and confirms it
       tools/run_seeded.py run <id> [--tier quick|thorough] [--props C01,C02]                 -> applies to /repo, runs check(s), undoes
       tools/run_seeded.py all                                                                 -> run every seeded change against its property

Confirmation (in a scratch worktree under /tmp, removed afterwards): patch applies; the unedited suite still gives 620 passed;
the demonstration fails with the change and passes without it."""
import json, os, re, shutil, subprocess, sys, time
from pathlib import Path

VERIF = Path(__file__).resolve().parent.parent
SEEDED = VERIF / "seeded"
REPO = "/repo"
PY = "/venv/bin/python"


def sh(cmd, **kw):
    return subprocess.run(cmd, shell=isinstance(cmd, str), capture_output=True, text=True, **kw)


def confirm(d: Path):
    wt = f"/tmp/seedcheck-{d.name}-{os.getpid()}"
    sh(f"git -C {REPO} worktree add -q --detach {wt} HEAD")
    res = {}
    try:
        demo = d / "demo.py"
        r0 = sh([PY, str(demo), wt], env={**os.environ, "PYTHONPATH": wt}, timeout=600)
        res["demo_clean_rc"] = r0.returncode
        a = sh(f"git -C {wt} apply {d / 'patch.diff'}")
        res["applies"] = a.returncode == 0
        if a.returncode != 0:
            res["apply_err"] = a.stderr[-300:]
            return res
        t = sh(f"cd {wt} && {PY} -m pytest -q -p no:cacheprovider bs4/tests 2>&1 | tail -1")
        res["suite"] = t.stdout.strip()
        r1 = sh([PY, str(demo), wt], env={**os.environ, "PYTHONPATH": wt}, timeout=600)
        res["demo_mutated_rc"] = r1.returncode
        res["demo_mutated_out"] = (r1.stdout + r1.stderr)[-400:]
        res["confirmed"] = (res["demo_clean_rc"] == 0 and res["demo_mutated_rc"] != 0 and "620 passed" in res["suite"]
                            and "failed" not in res["suite"])
    finally:
        sh(f"git -C {REPO} worktree remove --force {wt}")
    return res


def run_checks(d: Path, props, tier="quick"):
    """SEEDED_MODE=worktree: apply the change in a scratch worktree and point the checks at it with VERIF_REPO (used while
    other processes read /repo); default: the literal procedure (git -C /repo apply ...; checks; git -C /repo checkout -- .)"""
    meta = json.loads((d / "meta.json").read_text())
    worktree = os.environ.get("SEEDED_MODE") == "worktree"
    target = REPO
    if worktree:
        target = f"/tmp/seedrun-{d.name}-{os.getpid()}"
        sh(f"git -C {REPO} worktree add -q --detach {target} HEAD")
    else:
        st = sh(f"git -C {REPO} status --porcelain")
        if st.stdout.strip():
            print("refusing: /repo has uncommitted changes"); sys.exit(2)
    out = {}
    try:
        a = sh(f"git -C {target} apply {d / 'patch.diff'}")
        if a.returncode != 0:
            return {"error": "patch does not apply to /repo HEAD: " + a.stderr[-200:]}
        for p in props:
            t0 = time.time()
            r = sh(f"cd {VERIF} && ./check {p} --tier {tier}", env={**os.environ, "VERIF_SEED": os.environ.get("VERIF_SEED", "0"), "VERIF_REPO": target})
            lines = [l for l in r.stdout.splitlines() if l.startswith("VIOLATION")]
            real = [l for l in lines if "no-failing-input-found" not in l]
            out[p] = {"rc": r.returncode, "violation_lines": len(lines), "with_failing_input": len(real),
                      "first": (real or lines or [""])[0], "summary": r.stdout.strip().splitlines()[-1] if r.stdout.strip() else "",
                      "wall_s": round(time.time() - t0, 1)}
            # keep one replay for the record
            m = re.search(r"replay=(\S+)", out[p]["first"])
            if m and os.path.exists(m.group(1)):
                v = json.load(open(m.group(1)))
                out[p]["what"] = v.get("what", "")[:300]
    finally:
        if worktree:
            sh(f"git -C {REPO} worktree remove --force {target}")
        else:
            sh(f"git -C {REPO} checkout -- .")
        # evidence files were rewritten by the runs against the mutated tree: restore the committed ones
        sh(f"git -C {VERIF} checkout -- evidence")
    return out


def main():
    cmd = sys.argv[1]
    if cmd == "import":
        prop, src, sid = sys.argv[2], Path(sys.argv[3]), sys.argv[4]
        d = SEEDED / sid
        d.mkdir(parents=True, exist_ok=True)
        for f in ("patch.diff", "demo.py", "note.md"):
            if (src / f).exists():
                shutil.copy(src / f, d / f)
        res = confirm(d)
        meta = {"id": sid, "property": prop, "source": "independent sub-agent given only the property text and a scratch worktree",
                "needs_to_manifest": "", "confirmation": res}
        note = (d / "note.md").read_text() if (d / "note.md").exists() else ""
        meta["note_first_lines"] = note[:600]
        (d / "meta.json").write_text(json.dumps(meta, indent=1))
        print(sid, "confirmed" if res.get("confirmed") else "NOT confirmed", json.dumps(res)[:400])
    elif cmd == "run":
        sid = sys.argv[2]
        d = SEEDED / sid
        meta = json.loads((d / "meta.json").read_text())
        tier = "quick"
        props = [meta["property"]]
        for i, a in enumerate(sys.argv):
            if a == "--tier":
                tier = sys.argv[i + 1]
            if a == "--props":
                props = sys.argv[i + 1].split(",")
        out = run_checks(d, props, tier)
        meta.setdefault("check_results", {}).setdefault(tier, {}).update(out)
        meta["what_was_run"] = f"git -C /repo apply seeded/{sid}/patch.diff; ./check <prop> --tier {tier}; git -C /repo checkout -- ."
        (d / "meta.json").write_text(json.dumps(meta, indent=1))
        for p, r in out.items():
            if isinstance(r, dict):
                print(sid, p, "CAUGHT" if r.get("rc") == 1 else f"MISSED(rc={r.get('rc')})", r.get("first", "")[:120], "|", r.get("what", "")[:160])
            else:
                print(sid, p, r)
    elif cmd == "all":
        for d in sorted(SEEDED.iterdir()):
            if (d / "meta.json").exists() and not json.loads((d / "meta.json").read_text()).get("obsolete"):
                subprocess.run([sys.executable, __file__, "run", d.name])


if __name__ == "__main__":
    main()
