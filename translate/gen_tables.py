"""Translator: live bs4 objects of /repo's working tree -> BSModel/Gen/*.lean (written only when changed)."""
import sys, os
from pathlib import Path

HERE = Path(__file__).resolve().parent
GEN = HERE.parent / "lean" / "BSModel" / "Gen"
sys.path.insert(0, os.environ.get("VERIF_REPO", "/repo"))


def write_if_changed(name: str, text: str):
    GEN.mkdir(parents=True, exist_ok=True)
    p = GEN / name
    if not p.exists() or p.read_text() != text:
        p.write_text(text)
        print("CHANGED", name)


def lean_nat_list(xs):
    return "[" + ", ".join(str(x) for x in xs) + "]"


def lean_str(s: str):
    return lean_nat_list(ord(c) for c in s)


def chunked_def(name: str, ty: str, items: list[str], chunk: int = 32) -> str:
    """A big list literal split into chunks so elaboration stays within maxRecDepth."""
    out = []
    parts = []
    for i in range(0, max(len(items), 1), chunk):
        part = f"{name}_{i // chunk}"
        parts.append(part)
        out.append(f"def {part} : List ({ty}) := [" + ", ".join(items[i:i + chunk]) + "]")
    out.append(f"def {name} : List ({ty}) := " + " ++ ".join(parts))
    return "\n".join(out) + "\n"


def main():
    import bs4  # noqa
    from translate_parts import ALL
    for fn in ALL:
        for name, text in fn():
            write_if_changed(name, text)


if __name__ == "__main__":
    sys.path.insert(0, str(HERE))
    main()
