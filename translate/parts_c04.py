"""C04: stdlib facts the adapter model takes as parameters."""
from gen_tables import lean_nat_list, HEADER


def gen_cp1252():
    items = []
    for b in range(256):
        try:
            c = bytearray([b]).decode("windows-1252")
            items.append(f"({b}, {ord(c)})")
        except UnicodeDecodeError:
            pass
    t = HEADER + "namespace BS.Gen\n"
    t += "/-- `bytearray([n]).decode(\"windows-1252\")` for every byte it is defined on (CPython codec) -/\n"
    parts = []
    for i in range(0, len(items), 32):
        t += f"def cp1252Table_{i // 32} : List (Nat × Nat) := [" + ", ".join(items[i:i + 32]) + "]\n"
        parts.append(f"cp1252Table_{i // 32}")
    t += "def cp1252Table : List (Nat × Nat) := " + " ++ ".join(parts) + "\n"
    import sys
    t += f"def intMaxStrDigitsC04 : Nat := {sys.get_int_max_str_digits()}\n"
    from bs4.builder import HTMLTreeBuilder
    from bs4 import BeautifulSoup
    voids = sorted(HTMLTreeBuilder.DEFAULT_EMPTY_ELEMENT_TAGS)
    t += "def defaultVoidNames : List (List Nat) := [" + ", ".join(lean_nat_list(ord(c) for c in n) for n in voids) + "]\n"
    t += f"def asciiSpaces : List Nat := {lean_nat_list(ord(c) for c in BeautifulSoup.ASCII_SPACES)}\n"
    t += f"def rootTagName : List Nat := {lean_nat_list(ord(c) for c in BeautifulSoup.ROOT_TAG_NAME)}\n"
    t += "end BS.Gen\n"
    yield "Cp1252.lean", t


ALL = [gen_cp1252]
