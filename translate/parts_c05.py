"""C05 — tables for the rendering / re-parsing model, from the live bs4 objects and the running CPython.

Gen/Render.lean : PREFIX/SUFFIX/output_ready kind of every string class, the HTML and XML formatter registries
                  (substitution function by code, void_element_close_prefix, cdata_containing_tags,
                  empty_attributes_are_booleans), and the configuration of the re-parsing builder
                  (HTMLParserTreeBuilder: empty_element_tags, preserve_whitespace_tags, string_containers,
                  cdata_list_attributes; BeautifulSoup.ASCII_SPACES; the code points `\\s` matches;
                  HTMLParser.CDATA_CONTENT_ELEMENTS; whether handle_startendtag checks the already-closed list)."""
import re
import sys
import warnings

from gen_tables import lean_nat_list, lean_str, HEADER

# class name -> constructor of BS.Render.SCls (protocol code = position)
CLASSES = [("NavigableString", "navigable"), ("PreformattedString", "preformatted"), ("CData", "cdata"),
           ("ProcessingInstruction", "pi"), ("XMLProcessingInstruction", "xmlpi"), ("Comment", "comment"),
           ("Declaration", "declaration"), ("Doctype", "doctype"), ("Stylesheet", "stylesheet"),
           ("Script", "script"), ("TemplateString", "template"), ("RubyTextString", "rubyText"),
           ("RubyParenthesisString", "rubyParen")]
CTOR = dict(CLASSES)


def subst_kind(fn) -> int:
    from bs4.dammit import EntitySubstitution as E
    if fn is None:
        return 0
    for code, name in ((1, "substitute_xml"), (2, "substitute_html"), (3, "substitute_html5")):
        ref = getattr(E, name)
        if fn == ref or getattr(fn, "__func__", None) is getattr(ref, "__func__", object()):
            return code
    return 9


def fmt_spec(f) -> str:
    cd = sorted(f.cdata_containing_tags)
    return (f"⟨{subst_kind(f.entity_substitution)}, {lean_str(f.void_element_close_prefix or '')}, "
            f"[{', '.join(lean_str(x) for x in cd)}], {'true' if f.empty_attributes_are_booleans else 'false'}⟩")


def reg_name(k) -> str:
    return "none" if k is None else f"(some {lean_str(k)})"


def startend_checks() -> bool:
    """Does `<br>` followed by `<br/>` leave the second br open (4.13.0: handle_startendtag -> handle_endtag with
    check_already_closed=True)?"""
    from bs4 import BeautifulSoup
    with warnings.catch_warnings():
        warnings.simplefilter("ignore")
        s = BeautifulSoup("<br><br/>x", "html.parser")
    brs = s.find_all("br")
    return len(brs) == 2 and len(brs[1].contents) > 0


def gen_render():
    import bs4.element as E
    from bs4 import BeautifulSoup
    from bs4.formatter import HTMLFormatter, XMLFormatter
    from bs4.builder._htmlparser import HTMLParserTreeBuilder
    from html.parser import HTMLParser

    t = HEADER + "import BSModel.Model.Reparse\nnamespace BS.Gen.C05\nopen BS.Render\n"
    # string classes
    t += "/-- `PREFIX`, `SUFFIX`, and whether `output_ready` is `PreformattedString.output_ready` -/\n"
    t += "def liveClsInfo : SCls → ClsInfo\n"
    for name, ctor in CLASSES:
        cls = getattr(E, name)
        impl = cls.output_ready
        if impl is E.PreformattedString.output_ready:
            pre = "true"
        elif impl is E.NavigableString.output_ready:
            pre = "false"
        else:
            raise RuntimeError(f"{name}.output_ready is neither NavigableString's nor PreformattedString's")
        t += f"  | .{ctor} => ⟨{lean_str(cls.PREFIX)}, {lean_str(cls.SUFFIX)}, {pre}⟩  -- {name}\n"
    live = [v.__name__ for v in vars(E).values() if isinstance(v, type) and issubclass(v, E.NavigableString)
            and v.__module__ == E.__name__]
    t += f"/-- NavigableString subclasses defined in bs4.element: {', '.join(live)} -/\n"
    t += f"def liveClassCount : Nat := {len(live)}\n"
    # registries
    for nm, reg in (("htmlRegistry", HTMLFormatter.REGISTRY), ("xmlRegistry", XMLFormatter.REGISTRY)):
        items = [f"({reg_name(k)}, {fmt_spec(v)})" for k, v in sorted(reg.items(), key=lambda kv: str(kv[0]))]
        t += f"/-- `{nm}`: {', '.join(str(k) for k in sorted(reg, key=str))} -/\n"
        t += f"def {nm} : List (Option PStr × FmtSpec) := [\n  " + ",\n  ".join(items) + "]\n"
    probe = lambda x: x
    t += "/-- the formatter `formatter_for_name` makes of a callable: `HTMLFormatter(entity_substitution=fn)` (false) / `XMLFormatter(entity_substitution=fn)` (true); the function code is a placeholder -/\n"
    t += "def ctorDefaults : Bool → FmtSpec\n"
    t += f"  | false => {fmt_spec(HTMLFormatter(entity_substitution=probe))}\n"
    t += f"  | true => {fmt_spec(XMLFormatter(entity_substitution=probe))}\n"
    t += "/-- the registry `formatter_for_name` consults, by `_is_xml` -/\n"
    t += "def registryOf : Bool → List (Option PStr × FmtSpec)\n  | false => htmlRegistry\n  | true => xmlRegistry\n"
    t += f"/-- `Formatter.HTML_DEFAULTS['cdata_containing_tags']` -/\n"
    from bs4.formatter import Formatter
    t += f"def htmlCdataTags : List PStr := [{', '.join(lean_str(x) for x in sorted(Formatter.HTML_DEFAULTS['cdata_containing_tags']))}]\n"
    # re-parsing builder
    b = HTMLParserTreeBuilder()
    void = sorted(b.empty_element_tags or [])
    pres = sorted(b.preserve_whitespace_tags)
    cont = sorted(b.string_containers.items())
    for k, v in cont:
        if v.__name__ not in CTOR:
            raise RuntimeError(f"string container class {v.__name__} unknown to the model")
    cdl = sorted((k, sorted(v)) for k, v in b.cdata_list_attributes.items())
    ws_re, nws_re = re.compile(r"\s"), re.compile(r"\S")
    sp = []
    for c in range(sys.maxunicode + 1):
        ch = chr(c)
        a, b_ = ws_re.fullmatch(ch) is not None, nws_re.fullmatch(ch) is not None
        if a == b_:
            raise RuntimeError(f"\\s and \\S are not complementary on U+{c:04X}")
        if a:
            sp.append(c)
    t += "/-- the configuration of `BeautifulSoup(..., 'html.parser')` the re-parse runs under -/\n"
    t += "def livePCfg : PCfg where\n"
    t += f"  voidAll := {'true' if b.empty_element_tags is None else 'false'}\n"
    t += f"  voidTags := [{', '.join(lean_str(x) for x in void)}]\n"
    t += f"  preserveWs := [{', '.join(lean_str(x) for x in pres)}]\n"
    t += f"  containers := [{', '.join(f'({lean_str(k)}, .{CTOR[v.__name__]})' for k, v in cont)}]\n"
    t += "  cdataList := [" + ", ".join(
        f"({lean_str(k)}, [{', '.join(lean_str(a) for a in v)}])" for k, v in cdl) + "]\n"
    t += f"  asciiSpaces := {lean_str(BeautifulSoup.ASCII_SPACES)}\n"
    t += f"  reSpace := {lean_nat_list(sp)}\n"
    t += f"  cdataElems := [{', '.join(lean_str(x) for x in sorted(HTMLParser.CDATA_CONTENT_ELEMENTS))}]\n"
    t += f"  startendChecks := {'true' if startend_checks() else 'false'}\n"
    t += f"/-- void: {' '.join(void)}; preserve: {' '.join(pres)}; containers: {' '.join(k for k, _ in cont)} -/\n"
    t += "def livePCfgDoc : Unit := ()\n"
    t += "end BS.Gen.C05\n"
    yield "Render.lean", t


ALL = [gen_render]
