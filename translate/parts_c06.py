"""C06 — tables for the construction model (BS.Construct), from the live bs4 of the working tree and the running CPython.

Gen/ConstructTab.lean (import-free):
  * `cp1252Decode`      : for every byte n, the code point `bytes([n]).decode("windows-1252")` gives, or none
                          (the detour of `handle_charref`, bs4/builder/_htmlparser.py:244-257) — live codec;
  * `intMaxStrDigitsC06`   : `sys.get_int_max_str_digits()` (CPython's limit for `int(<decimal str>)`);
  * `maxUnicode`        : `sys.maxunicode` (`chr` range);
  * `urlPrefixes`, `fileExtensions`, `shellChars`, `heuristicsMaxLen` : the literals of `_markup_is_url`,
                          `_markup_resembles_filename` and of the guard in `BeautifulSoup.__init__`, read from the
                          AST of the live functions' source (they are locals, not attributes);
  * `liveWitnesses` : the live constructor run on the four witness inputs of the unrepaired mirrors;
  * `dammitRetriesOnEmpty` : whether the guard of UnicodeDammit's second pass is `if not u:` (AST of the live source);
  * `strictEncodeInHeuristics` : whether `_markup_resembles_filename` still encodes with the strict error handler;
  * field tables measured on the live objects by instrumentation (`__setattr__` spy + value snapshots):
      `resetAssigns`   — attributes of the BeautifulSoup object assigned by `reset()` (incl. `Tag.__init__`),
      `headerAssigns`  — the `for (...) in prepare_markup(...)` targets of the constructor,
      `attemptBuilderAssigns` — attributes of the builder assigned by `initialize_soup` / `builder.reset()`,
      `feedTouches`    — attributes of the soup (and, prefixed `builder.`, of the builder) that a `_feed()` of a rich
                         document, and of poisoned/rejected attempts, assigns or mutates in place,
      `allFields`      — every attribute of the object (and `builder.*`) after construction.
"""
import ast
import inspect
import sys
import textwrap
import warnings

from gen_tables import lean_nat_list, chunked_def, HEADER

RICH_DOC = ("<!DOCTYPE html><html><head><meta charset='utf-8'><meta http-equiv='Content-type' content='text/html; charset=utf-8'>"
            "<title>t</title></head><body><p class='a b' id=x>x &amp; &#65; &#x80; &nosuch; &#1114112;<br/><br></br><b>y<i>z</b>w</i>"
            "<pre> k\n </pre><textarea>\n q</textarea><!--c--><?pi?><![CDATA[q]]><script>1<2</script><style>a{}</style>"
            "<template>t</template><ruby>r<rt>t</rt><rp>p</rp></ruby><svg:a xmlns:svg='u' a=1 a=2>s</svg:a></p>"
            "<table><tr><td>1<td>2</table><a><a><a></a></p></x>text")
POISON = ["<![x]", "<p>a<b>b<![x]c", "<!DOCTYPE html><p class='a'>x<pre> y<![if", RICH_DOC + "<![x]>"]


def lean_string_list(xs):
    return "[" + ", ".join('"' + x + '"' for x in xs) + "]"


def _fn_ast(fn):
    return ast.parse(textwrap.dedent(inspect.getsource(fn)))


def _consts(t, typ):
    """every constant of type `typ` in the function, in source order, duplicates removed (independent of whether the code keeps them in a
    list, a tuple, a module-level name's default or inline: a harmless re-layout of the literals must not change what is read)"""
    cs = [(n.lineno, n.col_offset, 0, n.value) for n in ast.walk(t) if isinstance(n, ast.Constant) and type(n.value) is typ
          and not isinstance(getattr(n, "_parent", None), ast.Expr)]
    # literals kept in a class attribute or a module-level name the function refers to (`self.X`, `cls.X`, `BeautifulSoup.X`, `X`)
    import bs4
    for n in ast.walk(t):
        v = None
        if isinstance(n, ast.Attribute) and isinstance(n.value, ast.Name) and n.value.id in ("self", "cls", "BeautifulSoup"):
            v = getattr(bs4.BeautifulSoup, n.attr, None)
        elif isinstance(n, ast.Name) and n.id.isupper():
            v = getattr(bs4, n.id, None)
        if isinstance(v, (tuple, list, frozenset, set)):
            items = sorted(v) if isinstance(v, (set, frozenset)) else list(v)
        elif type(v) is typ:
            items = [v]
        else:
            continue
        for k, it in enumerate(items):
            if type(it) is typ:
                cs.append((n.lineno, n.col_offset, k, it))
    cs.sort(key=lambda x: x[:3])
    cs = [(a, b, d) for a, b, _, d in cs]
    out = []
    for _, _, v in cs:
        if v not in out:
            out.append(v)
    return out


def _mark_parents(t):
    for n in ast.walk(t):
        for c in ast.iter_child_nodes(n):
            c._parent = n
    return t


def heuristics_literals():
    """URL prefixes, file extensions, shell characters, the guard length and the encode error handler."""
    from bs4 import BeautifulSoup
    out = dict(prefixes=[], extensions=[], shell=[], maxlen=None, strict=True)
    try:
        t = _mark_parents(_fn_ast(BeautifulSoup._markup_is_url.__func__))
        bs = [list(v) for v in _consts(t, bytes) if v.endswith(b":") and len(v) > 1]
        ss = [[ord(c) for c in v] for v in _consts(t, str) if v.endswith(":") and len(v) > 1 and " " not in v]
        out["prefixes"] = bs if bs == ss else []  # bytes and str branches differ: the model's single list does not apply
    except Exception:
        pass
    try:
        t = _mark_parents(_fn_ast(BeautifulSoup._markup_resembles_filename.__func__))
        bs = _consts(t, bytes)
        exts = [list(v) for v in bs if v.startswith(b".") and len(v) > 1]
        if not exts:
            exts = [[ord(c) for c in v] for v in _consts(t, str) if v.startswith(".") and len(v) > 1 and " " not in v]
        out["extensions"] = exts
        shell = [v for v in bs if len(v) >= 3 and not v.startswith(b".")]
        out["shell"] = list(shell[0]) if len(shell) == 1 else []
        for n in ast.walk(t):
            if isinstance(n, ast.Call) and isinstance(n.func, ast.Attribute) and n.func.attr == "encode":
                out["strict"] = not (len(n.args) >= 2 or any(k.arg == "errors" for k in n.keywords))
    except Exception:
        pass
    try:
        t = _fn_ast(BeautifulSoup.__init__)
        for n in ast.walk(t):
            if (isinstance(n, ast.Compare) and isinstance(n.left, ast.Call) and getattr(n.left.func, "id", "") == "len"
                    and isinstance(n.ops[0], ast.LtE) and isinstance(n.comparators[0], ast.Constant)):
                out["maxlen"] = n.comparators[0].value
    except Exception:
        pass
    return out


def dammit_retries_on_empty():
    """Is the guard of UnicodeDammit's second pass `if not u:` (true: an empty decoding is retried with
    errors="replace") or `if u is None:` (false)?"""
    from bs4.dammit import UnicodeDammit
    try:
        t = _fn_ast(UnicodeDammit.__init__)
        for n in ast.walk(t):
            if isinstance(n, ast.If) and any(isinstance(b, ast.For) for b in n.body):
                test = n.test
                if isinstance(test, ast.UnaryOp) and isinstance(test.op, ast.Not):
                    return True
                if isinstance(test, ast.Compare) and isinstance(test.ops[0], ast.Is):
                    return False
    except Exception:
        pass
    return True


def live_witnesses():
    """The four inputs on which the unrepaired mirrors fail (Props/C06 witness theorems), run on the live code:
    (label, returned a tree or ParserRejectedMarkup?)."""
    from bs4 import BeautifulSoup
    from bs4.exceptions import ParserRejectedMarkup
    lim = sys.get_int_max_str_digits() if hasattr(sys, "get_int_max_str_digits") else 4300
    n = (lim or 4300) + 1
    probes = [("surrogate-in-short-markup", "a\udfffb", {}),
              ("charref-digit-limit", "&#" + "9" * n + ";", {}),
              ("charref-codec-error", b"<p>&#1;</p>-", {"from_encoding": "punycode"}),
              ("tokenizer-valueerror", "<a href=\"&#" + "9" * n + ";\">", {})]
    out = []
    for label, markup, kw in probes:
        try:
            with warnings.catch_warnings():
                warnings.simplefilter("ignore")
                BeautifulSoup(markup, "html.parser", **kw)
            ok = True
        except ParserRejectedMarkup:
            ok = True
        except Exception:
            ok = False
        out.append((label, ok))
    return out


def live_original_encoding_probes():
    """Documents that are empty once the byte-order mark is stripped x names that are no text codec here, through the live constructor:
    (label, original_encoding is None or a text codec?)"""
    from bs4 import BeautifulSoup
    out = []
    for bom, bl in ((b"\xef\xbb\xbf", "utf8-bom"), (b"\xff\xfe", "utf16le-bom"), (b"\xff\xfe\x00\x00", "utf32le-bom")):
        for name in ("nosuch", "mbcs-or-unknown", "base64", "rot13", "hex"):
            try:
                with warnings.catch_warnings():
                    warnings.simplefilter("ignore")
                    oe = BeautifulSoup(bom, "html.parser", from_encoding=name).original_encoding
                ok = True
                if oe is not None:
                    try:
                        "".encode(oe)
                    except LookupError:
                        ok = False
            except Exception:
                ok = False
            out.append((f"{bl}/{name}", ok))
    return out


def _snap(v):
    """value snapshot that notices in-place mutation of the containers the parser state uses"""
    if isinstance(v, list):
        return ("list", tuple(id(x) for x in v))
    if isinstance(v, dict):
        return ("dict", tuple(sorted((repr(k), id(x) if not isinstance(x, (int, str, bool, type(None))) else repr(x))
                                     for k, x in v.items())))
    if isinstance(v, (int, str, bool, bytes, type(None), tuple, frozenset)):
        return ("val", repr(v))
    return ("id", id(v))


def _snapshot(soup):
    d = {k: _snap(v) for k, v in soup.__dict__.items()}
    b = soup.__dict__.get("builder")
    if b is not None and hasattr(b, "__dict__"):
        for k, v in b.__dict__.items():
            d["builder." + k] = _snap(v)
    return d


def field_tables():
    """Instrument the live objects. Returns dict of ordered field-name lists."""
    from bs4 import BeautifulSoup
    from bs4.builder import HTMLParserTreeBuilder
    from bs4.exceptions import ParserRejectedMarkup
    log = []

    class SpyBuilder(HTMLParserTreeBuilder):
        def __setattr__(self, k, v):
            log.append("builder." + k)
            object.__setattr__(self, k, v)

    class Spy(BeautifulSoup):
        def __setattr__(self, k, v):
            log.append(k)
            object.__setattr__(self, k, v)

    def uniq(xs):
        return list(dict.fromkeys(xs))

    with warnings.catch_warnings():
        warnings.simplefilter("ignore")
        s = Spy(RICH_DOC, builder=SpyBuilder)
        all_fields = sorted(_snapshot(s))
        # reset()
        log.clear()
        s.reset()
        reset_assigns = uniq(k for k in log if not k.startswith("builder."))
        builder_assigns = uniq(k for k in log if k.startswith("builder."))
        log.clear()
        s.builder.initialize_soup(s)
        builder_assigns = uniq(builder_assigns + [k for k in log if k.startswith("builder.")])
        # header targets: the names the constructor assigns between `self.parse_only = ...` and the first reset
        log.clear()
        s2 = Spy("<a>", builder=SpyBuilder)
        seq = [k for k in log if not k.startswith("builder.")]
        first_reset = seq.index(reset_assigns[0]) if reset_assigns and reset_assigns[0] in seq else len(seq)
        header = []
        for k in reversed(seq[:first_reset]):
            if k in ("parse_only",):
                break
            header.append(k)
        header = list(reversed(header))
        # feed: whatever a feed assigns or mutates, over a clean rich parse and several poisoned ones
        touches = []
        for doc in [RICH_DOC] + POISON:
            s.markup = doc
            s.reset()
            s.builder.initialize_soup(s)
            before = _snapshot(s)
            log.clear()
            try:
                s._feed()
            except Exception:  # rejected (ParserRejectedMarkup) or crashed: the touched fields are recorded either way
                pass
            after = _snapshot(s)
            touches += [k for k in log]
            touches += [k for k in after if before.get(k) != after[k]]
            touches += [k for k in before if k not in after]
        s.builder.soup = None
    return dict(reset=reset_assigns, header=header, builder=builder_assigns, feed=sorted(set(touches)), all=all_fields)


def gen_construct():
    lim = sys.get_int_max_str_digits() if hasattr(sys, "get_int_max_str_digits") else 0
    cp = []
    for n in range(256):
        try:
            r = bytes([n]).decode("windows-1252")
            cp.append(f"some {ord(r)}" if len(r) == 1 else "none")
        except UnicodeDecodeError:
            cp.append("none")
    lit = heuristics_literals()
    try:
        ft = field_tables()
    except Exception as e:  # the live objects cannot even be instrumented: empty tables, the theorems over them fail
        sys.stderr.write("parts_c06: field instrumentation failed: %r\n" % (e,))
        ft = dict(reset=[], header=[], builder=[], feed=[], all=[])
    t = HEADER
    t += "/-! tables of the construction model (C06): CPython facts and literals/field sets read from the live bs4 -/\n"
    t += "namespace BS.Gen.C06\n"
    t += chunked_def("cp1252Decode", "Option Nat", cp)
    t += f"/-- sys.get_int_max_str_digits(); 0 = no limit -/\ndef intMaxStrDigitsC06 : Nat := {lim}\n"
    t += f"def maxUnicode : Nat := {sys.maxunicode}\n"
    t += f"def urlPrefixes : List (List Nat) := [{', '.join(lean_nat_list(p) for p in lit['prefixes'])}]\n"
    t += f"def fileExtensions : List (List Nat) := [{', '.join(lean_nat_list(p) for p in lit['extensions'])}]\n"
    t += f"def shellChars : List Nat := {lean_nat_list(lit['shell'])}\n"
    t += f"def heuristicsMaxLen : Nat := {lit['maxlen'] if lit['maxlen'] is not None else 0}\n"
    t += f"/-- `markup.encode(\"utf8\")` in `_markup_resembles_filename` without an error handler -/\n"
    t += f"def strictEncodeInHeuristics : Bool := {'true' if lit['strict'] else 'false'}\n"
    t += "/-- the second (errors=replace) pass of UnicodeDammit is entered on an empty decoding too (`if not u:`) -/\n"
    t += f"def dammitRetriesOnEmpty : Bool := {'true' if dammit_retries_on_empty() else 'false'}\n"
    wit = ", ".join('("%s", %s)' % (l, "true" if ok else "false") for l, ok in live_witnesses())
    t += "/-- the live constructor on the witness inputs of the unrepaired mirrors: ends in a tree or ParserRejectedMarkup? -/\n"
    t += f"def liveWitnesses : List (String × Bool) := [{wit}]\n"
    oep = ", ".join('("%s", %s)' % (l, "true" if ok else "false") for l, ok in live_original_encoding_probes())
    t += "/-- BOM-only documents x names that are no text codec, live constructor: is original_encoding (None or) a text codec? -/\n"
    t += f"def liveOriginalEncodingIsCodec : List (String × Bool) := [{oep}]\n"
    t += f"def resetAssigns : List String := {lean_string_list(ft['reset'])}\n"
    t += f"def headerAssigns : List String := {lean_string_list(ft['header'])}\n"
    t += f"def attemptBuilderAssigns : List String := {lean_string_list(ft['builder'])}\n"
    t += f"def feedTouches : List String := {lean_string_list(ft['feed'])}\n"
    t += f"def allFields : List String := {lean_string_list(ft['all'])}\n"
    t += "end BS.Gen.C06\n"
    yield "ConstructTab.lean", t


# The trusted residue: for each primitive of the call path, the exact exception classes it has been observed to raise
# (CPython 3.12 codecs / int / chr / html.parser; everything else on the path has never been seen to raise). The harness
# records the classes actually raised on every run and reports any class outside these lists with the input.
RECORDED = {
    "warn": [], "cands": [], "logWarning": [], "declaredProp": [], "resetAll": [], "newParser": [], "callbacks": [],
    # codecs.lookup: unknown name; embedded NUL; lone surrogate in the name
    "lookup": ["lookupError", "valueError", "unicodeEncodeError"],
    # str(bytes, codec, errors): unknown / non-text codec; NUL or surrogate in the name; undecodable bytes; codecs that raise
    # plain UnicodeError (undefined, punycode, idna with errors=replace)
    "decode": ["lookupError", "valueError", "unicodeEncodeError", "unicodeDecodeError", "unicodeError"],
    # html.parser / _markupbase give up with AssertionError; html.unescape hits int()'s digit limit with ValueError
    "tokenizer": ["assertionError", "valueError"],
    "intOf": ["valueError"],
    "dec1": ["unicodeDecodeError", "unicodeError"],
    "chrOf": ["valueError", "overflowError"],
}


def gen_envelope():
    """Gen/C06Exc.lean: the live class hierarchy, the recorded kinds and the primitive-level injection matrix of the live code"""
    sys.path.insert(0, str(__import__("pathlib").Path(__file__).resolve().parent.parent))
    import logging
    logging.disable(logging.CRITICAL)
    from harness import c06_envelope as E
    table = E.class_table()
    t = HEADER + "import BSModel.Model.Envelope\nnamespace BS.Gen.C06\nopen BS.Construct\n"
    rows = []
    for name, cls in table.items():
        mro = []
        for m in cls.__mro__:
            if m is object:
                continue
            ln = E.lean_name(m, table)
            mro.append(ln if ln is not None else "(.other 9999)")   # a base class the model does not know: mro_table fails
        rows.append(f"(.{name}, [{', '.join(mro)}])")
    t += "/-- `cls.__mro__` (without `object`) of the live classes -/\n"
    t += chunked_def("excMro", "Err × List Err", rows, 8)
    fields = ["warn", "cands", "lookup", "decode", "logWarning", "declaredProp", "resetAll", "newParser", "tokenizer", "intOf", "dec1",
              "chrOf", "callbacks"]
    t += "/-- the recorded kinds (translate/parts_c06.py RECORDED) -/\n"
    t += "def recorded : Recorded :=\n  { " + ",\n    ".join(
        f"{f} := [{', '.join('.' + c for c in RECORDED[f])}]" for f in fields) + " }\n"
    by_proto = {E.proto_name(c): E.lean_name(c, table) for c in list(table.values()) + [E.HarnessError, E.HarnessBaseError]}
    inj = []
    try:
        hooked = E.hooked_points()
    except Exception:
        hooked = []
    t += "/-- the primitives the harness can hook in this working tree (all of them unless an import style changed) -/\n"
    t += f"def hookedPoints : List Point := [{', '.join('.' + p for p in hooked)}]\n"
    try:
        matrix = E.injection_matrix(points=hooked)
    except Exception as e:  # the live code cannot be instrumented at some point: empty table, injection_table_complete fails
        sys.stderr.write("parts_c06: injection matrix failed: %r\n" % (e,))
        matrix = []
    for pt, cls, v in matrix:
        if v.startswith("escapes "):
            vt = "(.escapes %s)" % by_proto.get(v.split(" ", 1)[1], "(.other 9998)")
        else:
            vt = "." + v
        inj.append(f"(.{pt}, {E.lean_name(cls, table)}, {vt})")
    t += "/-- every call of the primitive raises the class -> what the caller of the live constructor sees -/\n"
    t += chunked_def("injections", "Point × Err × Verdict", inj, 16)
    t += "end BS.Gen.C06\n"
    yield "C06Exc.lean", t


ALL = [gen_construct, gen_envelope]
