"""C07 — tables for the encoding-detection model, computed from the live bs4.dammit objects."""
from gen_tables import lean_nat_list, lean_str, HEADER


def _opt(name):
    return "none" if name is None else f"some {lean_str(name)}"


def gen_encoding_in():
    from bs4.dammit import UnicodeDammit, EncodingDetector
    aliases = sorted(UnicodeDammit.CHARSET_ALIASES.items())
    # the last-ditch encodings of the generator: what it yields when nothing else is known
    fallback = list(EncodingDetector(b"a").encodings)
    # strip_byte_order_mark probed on every combination of BOM-like prefixes and short payloads
    prefixes = [b"", b"\xfe\xff", b"\xff\xfe", b"\xef\xbb\xbf", b"\x00\x00\xfe\xff", b"\xff\xfe\x00\x00", b"\xef\xbb", b"\xfe", b"\xff",
                b"\x00\x00\xfe", b"\xff\xfe\x00", b"\xfe\xff\x00\x00", b"\xfe\xff\x00", b"\xff\xff", b"\xfe\xfe"]
    payloads = [b"", b"a", b"\x00", b"a\x00", b"\x00a", b"\x00\x00", b"a\x00b\x00", b"\x00\x00\x00a", b"a\x00\x00\x00", b"abc", b"\x00\x00\x00\x00",
                b"\xef\xbb\xbf", b"\xff\xfe", b"\xfe\xff"]
    probes = []
    for p in prefixes:
        for q in payloads:
            d = p + q
            out, enc = EncodingDetector.strip_byte_order_mark(d)
            probes.append(f"({lean_nat_list(d)}, {lean_nat_list(out)}, {_opt(enc)})")
    t = HEADER + "import BSModel.Base.PStr\nnamespace BS.Gen\n"
    t += "/-- UnicodeDammit.CHARSET_ALIASES: " + ", ".join(f"{k}->{v}" for k, v in aliases) + " -/\n"
    t += "def charsetAliases : List (BS.PStr × BS.PStr) := [" + ", ".join(f"({lean_str(k)}, {lean_str(v)})" for k, v in aliases) + "]\n"
    t += "/-- list(EncodingDetector(b\"a\").encodings): " + ", ".join(fallback) + " -/\n"
    t += "def fallbackEncodings : List BS.PStr := [" + ", ".join(lean_str(f) for f in fallback) + "]\n"
    t += "/-- (input, stripped, sniffed) of EncodingDetector.strip_byte_order_mark on probe inputs -/\n"
    from gen_tables import chunked_def
    t += chunked_def("bomProbes", "BS.Bytes × BS.Bytes × Option BS.PStr", probes, 16)
    t += "end BS.Gen\n"
    yield "EncodingIn.lean", t



# ---- the declaration regexes as data -------------------------------------------------------------------------------
def rx_atoms(src, flags):
    """(anchored, [atom, ...]) of a pattern of the supported fragment, from Python's own parser; atoms as tuples
    ('one', cls) | ('rep', cls, min1, many, greedy) | ('gopen',) | ('gclose',); cls as ('lit', c) | ('notLit', c) | ('any',) |
    ('space',) | ('oneOf', [c...], sp, neg). Raises ValueError outside the fragment."""
    import re._parser as P
    from re._constants import (LITERAL, NOT_LITERAL, ANY, IN, CATEGORY, CATEGORY_SPACE, MAX_REPEAT, MIN_REPEAT, SUBPATTERN, AT,
                               AT_BEGINNING, NEGATE, MAXREPEAT)
    tree = list(P.parse(src, flags))

    def cls(item):
        op, av = item
        if op is LITERAL:
            return ("lit", av)
        if op is NOT_LITERAL:
            return ("notLit", av)
        if op is ANY:
            return ("any",)
        if op is IN:
            if av == [(CATEGORY, CATEGORY_SPACE)]:
                return ("space",)
            neg, lits, sp = False, [], False
            for k, (o, a) in enumerate(av):
                if o is NEGATE and k == 0:
                    neg = True
                elif o is LITERAL:
                    lits.append(a)
                elif o is CATEGORY and a is CATEGORY_SPACE:
                    sp = True
                else:
                    raise ValueError(f"unsupported set member {o} {a}")
            return ("oneOf", lits, sp, neg)
        raise ValueError(f"unsupported item {op}")

    def seq(items, top):
        out = []
        for k, (op, av) in enumerate(items):
            if op is AT:
                raise ValueError("anchor inside the pattern")
            if op in (MAX_REPEAT, MIN_REPEAT):
                lo, hi, body = av
                if len(body) != 1 or lo not in (0, 1) or hi not in (1, MAXREPEAT):
                    raise ValueError("unsupported repeat")
                out.append(("rep", cls(body[0]), lo == 1, hi is MAXREPEAT or hi == MAXREPEAT, op is MAX_REPEAT))
            elif op is SUBPATTERN:
                g, add, dele, body = av
                if not top or g != 1 or add or dele:
                    raise ValueError("unsupported group")
                out.append(("gopen",))
                out.extend(seq(body, False))
                out.append(("gclose",))
            else:
                out.append(("one", cls((op, av))))
        return out
    anchored = bool(tree) and tree[0] == (AT, AT_BEGINNING)
    return anchored, seq(tree[1:] if anchored else tree, True)


def lean_bool(b):
    return "true" if b else "false"


def lean_cls(c):
    if c[0] in ("lit", "notLit"):
        return f".{c[0]} {c[1]}"
    if c[0] in ("any", "space"):
        return "." + c[0]
    return f".oneOf {lean_nat_list(c[1])} {lean_bool(c[2])} {lean_bool(c[3])}"


def lean_atom(a):
    if a[0] == "one":
        return f".one ({lean_cls(a[1])})"
    if a[0] == "rep":
        return f".rep ({lean_cls(a[1])}) {lean_bool(a[2])} {lean_bool(a[3])} {lean_bool(a[4])}"
    return "." + a[0]


def pattern_literals(atoms):
    out = set()
    for a in atoms:
        if a[0] in ("one", "rep"):
            c = a[1]
            if c[0] in ("lit", "notLit"):
                out.add(c[1])
            elif c[0] == "oneOf":
                out.update(c[1])
    return out


def gen_encoding_rx():
    import re
    from bs4 import dammit
    from gen_tables import chunked_def
    pats = {}
    for name, src in (("Xml", dammit.xml_encoding), ("Html", dammit.html_meta)):
        b = rx_atoms(src.encode("ascii"), re.I)
        u = rx_atoms(src, re.I)
        if b != u:
            raise RuntimeError(f"bytes and str flavour of {name} parse differently")
        # the compiled objects bs4 really uses must be these sources with re.I
        for ty, key in ((bytes, name.lower()), (str, name.lower())):
            comp = dammit.encoding_res[ty][key]
            want = src.encode("ascii") if ty is bytes else src
            if comp.pattern != want or not (comp.flags & re.I) or (comp.flags & (re.M | re.S | re.X)):
                raise RuntimeError(f"encoding_res[{ty.__name__}][{key}] is not the module-level source with re.I")
        pats[name] = b
    allchars = "".join(map(chr, range(0x110000)))
    space = sorted(ord(ch) for ch in re.compile(r"\s").findall(allchars))
    lits = sorted(pattern_literals(pats["Xml"][1]) | pattern_literals(pats["Html"][1]))
    ci = []
    for l in lits:
        hits = sorted(ord(ch) for ch in re.compile(re.escape(chr(l)), re.I).findall(allchars))
        hits = [h for h in hits if h != l]
        if hits:
            ci.append((l, hits))
    t = HEADER + "import BSModel.Model.EncodingRxSyntax\nnamespace BS.Gen\nopen BS.EncodingIn.Rx\n"
    for name in ("Xml", "Html"):
        anchored, atoms = pats[name]
        src = getattr(dammit, "xml_encoding" if name == "Xml" else "html_meta")
        t += f"/-- bs4.dammit.{'xml_encoding' if name == 'Xml' else 'html_meta'} = {src!r} (re.I; bytes and str flavours parse alike) -/\n"
        t += f"def c07{name}Anchored : Bool := {lean_bool(anchored)}\n"
        t += f"def c07{name}Atoms : List Atom := [" + ", ".join(lean_atom(a) for a in atoms) + "]\n"
    t += "/-- every code point matched by the str pattern `\\s` (live `re`) -/\n"
    t += f"def c07UnicodeSpace : List Nat := {lean_nat_list(space)}\n"
    t += "/-- for each literal of the two patterns: the OTHER code points it matches under re.I in a str pattern (live `re`, all of Unicode) -/\n"
    t += "def c07CiTable : List (Nat × List Nat) := [" + ", ".join(f"({l}, {lean_nat_list(h)})" for l, h in ci) + "]\n"
    t += "end BS.Gen\n"
    yield "EncodingRx.lean", t


ALL = [gen_encoding_in, gen_encoding_rx]
