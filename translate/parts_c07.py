"""C07 — tables for the encoding-detection model, computed from the live bs4.dammit objects."""
from gen_tables import lean_nat_list, lean_str, HEADER


def _opt(name):
    return "none" if name is None else f"some {lean_str(name)}"


def gen_encoding_in():
    from bs4.dammit import UnicodeDammit, EncodingDetector
    aliases = sorted(UnicodeDammit.CHARSET_ALIASES.items())
    # the last-ditch encodings of the generator: what it yields when nothing else is known
    fallback = list(EncodingDetector(b"a").encodings)
    # strip_byte_order_mark probed on every combination of BOM-like prefixes and short payloads
    prefixes = [b"", b"\xfe\xff", b"\xff\xfe", b"\xef\xbb\xbf", b"\x00\x00\xfe\xff", b"\xff\xfe\x00\x00", b"\xef\xbb", b"\xfe", b"\xff",
                b"\x00\x00\xfe", b"\xff\xfe\x00", b"\xfe\xff\x00\x00", b"\xfe\xff\x00", b"\xff\xff", b"\xfe\xfe"]
    payloads = [b"", b"a", b"\x00", b"a\x00", b"\x00a", b"\x00\x00", b"a\x00b\x00", b"\x00\x00\x00a", b"a\x00\x00\x00", b"abc", b"\x00\x00\x00\x00",
                b"\xef\xbb\xbf", b"\xff\xfe", b"\xfe\xff"]
    probes = []
    for p in prefixes:
        for q in payloads:
            d = p + q
            out, enc = EncodingDetector.strip_byte_order_mark(d)
            probes.append(f"({lean_nat_list(d)}, {lean_nat_list(out)}, {_opt(enc)})")
    t = HEADER + "import BSModel.Base.PStr\nnamespace BS.Gen\n"
    t += "/-- UnicodeDammit.CHARSET_ALIASES: " + ", ".join(f"{k}->{v}" for k, v in aliases) + " -/\n"
    t += "def charsetAliases : List (BS.PStr × BS.PStr) := [" + ", ".join(f"({lean_str(k)}, {lean_str(v)})" for k, v in aliases) + "]\n"
    t += "/-- list(EncodingDetector(b\"a\").encodings): " + ", ".join(fallback) + " -/\n"
    t += "def fallbackEncodings : List BS.PStr := [" + ", ".join(lean_str(f) for f in fallback) + "]\n"
    t += "/-- (input, stripped, sniffed) of EncodingDetector.strip_byte_order_mark on probe inputs -/\n"
    from gen_tables import chunked_def
    t += chunked_def("bomProbes", "BS.Bytes × BS.Bytes × Option BS.PStr", probes, 16)
    t += "end BS.Gen\n"
    yield "EncodingIn.lean", t


ALL = [gen_encoding_in]
