"""C08 — tables for the output-encoding model, from the live bs4 objects and the running CPython.

Gen/EncodingOut.lean (import-free; the model imports it):
  pythonSpecificEncodings   `bs4.element.PYTHON_SPECIFIC_ENCODINGS` (sorted)
  defaultOutputEncoding     `bs4.element.DEFAULT_OUTPUT_ENCODING`
  charsetRe*                the shape of the live `ContentMetaAttributeValue.CHARSET_RE`: which known pattern it is,
                            whether it is multi-line, and — probed from the live flags with `re` itself — the code points
                            each letter of the literal `charset` and the `=` accept, and what `\\s` accepts
  cp1252Decode              `bytes([b]).decode("windows-1252")` for every byte (bs4's `handle_charref` compensation)
  invalidCharrefs/-Codepoints  the two tables `html.unescape` consults for numeric references (attribute values)
  sbCodecs                  decode tables of the single-byte codecs the correspondence runs byte-for-byte in Lean"""
import re

from gen_tables import lean_nat_list, lean_str, chunked_def, HEADER

UNDEF = 0x110000  # first non-code-point: marks an undefined byte in a decode table (UNDEF + byte keeps entries distinct)

# the two spellings of CHARSET_RE this model knows: 4.13.0's, and the case- and space-tolerant repair
KNOWN_PATTERNS = {
    r"((^|;)\s*charset=)([^;]*)": False,
    r"((^|;)\s*charset\s*=\s*)([^;]*)": True,
}

SINGLE_BYTE = ["ascii", "latin-1", "windows-1252", "iso-8859-2", "iso-8859-5", "iso-8859-7", "iso-8859-8", "iso-8859-15",
               "koi8-r", "cp1251", "cp437", "mac-roman", "cp1256", "tis-620", "cp500"]


def decode_table(enc: str):
    out = []
    for b in range(256):
        try:
            s = bytes([b]).decode(enc)
            if len(s) != 1:
                raise UnicodeDecodeError(enc, bytes([b]), 0, 1, "not one character")
            out.append(ord(s))
        except UnicodeDecodeError:
            out.append(UNDEF + b)
    return out


def accepted(pattern: str, flags: int):
    """code points a one-character pattern accepts under the given flags"""
    r = re.compile(pattern, flags)
    return [c for c in range(0x110000) if r.fullmatch(chr(c))]


def gen_encoding_out():
    import html
    from bs4.element import PYTHON_SPECIFIC_ENCODINGS, ContentMetaAttributeValue, DEFAULT_OUTPUT_ENCODING
    R = ContentMetaAttributeValue.CHARSET_RE
    t = HEADER + "namespace BS.Gen.EncodingOut\n"
    t += "/-- `bs4.element.PYTHON_SPECIFIC_ENCODINGS`: " + ", ".join(sorted(PYTHON_SPECIFIC_ENCODINGS)) + " -/\n"
    t += f"def pythonSpecificEncodings : List (List Nat) := [{', '.join(lean_str(x) for x in sorted(PYTHON_SPECIFIC_ENCODINGS))}]\n"
    t += f"/-- `DEFAULT_OUTPUT_ENCODING` = {DEFAULT_OUTPUT_ENCODING!r} -/\n"
    t += f"def defaultOutputEncoding : List Nat := {lean_str(DEFAULT_OUTPUT_ENCODING)}\n"
    known = R.pattern in KNOWN_PATTERNS
    ci = R.flags & (re.I | re.A)   # the flags that decide which characters a literal / `\s` accepts
    t += f"/-- live `ContentMetaAttributeValue.CHARSET_RE.pattern` = {R.pattern!r}, flags = {R.flags} -/\n"
    t += f"def charsetRePattern : List Nat := {lean_str(R.pattern)}\n"
    t += f"def charsetReKnown : Bool := {'true' if known else 'false'}\n"
    t += "/-- optional whitespace around `=` (the tolerant spelling) -/\n"
    t += f"def charsetReSpaceTolerant : Bool := {'true' if KNOWN_PATTERNS.get(R.pattern, False) else 'false'}\n"
    t += f"def charsetReMultiline : Bool := {'true' if R.flags & re.M else 'false'}\n"
    t += f"def charsetReIgnoreCase : Bool := {'true' if ci else 'false'}\n"
    t += "/-- for each character of the literal `charset=`: the code points the live regex accepts there (probed with `re` under the live flags) -/\n"
    t += f"def charsetReLiteral : List (List Nat) := [{', '.join(lean_nat_list(accepted(re.escape(ch), ci)) for ch in 'charset=')}]\n"
    t += "/-- the code points `\\s` accepts in a str pattern on this CPython = those with `str.isspace()` = those `str.strip()` removes (all three compared at generation time) -/\n"
    t += f"def reWhitespace : List Nat := {lean_nat_list(accepted(chr(92) + 's', 0))}\n"
    t += "/-- what `\\s` accepts inside the live CHARSET_RE (its own flags: `re.A` would narrow it to ASCII) -/\n"
    t += f"def charsetReSpace : List Nat := {lean_nat_list(accepted(chr(92) + 's', R.flags & re.A))}\n"
    ws = [c for c in range(0x110000) if chr(c).isspace()]
    if ws != accepted(chr(92) + 's', 0):
        raise RuntimeError("re \\s and str.isspace disagree on this CPython")
    for c in range(0x110000):
        if ((chr(c) + "x" + chr(c)).strip() == "x") != (c in set(ws)):
            raise RuntimeError(f"str.strip and str.isspace disagree on U+{c:04X}")
    from bs4.builder import HTMLTreeBuilder
    from bs4.formatter import HTMLFormatter
    fm = HTMLFormatter.REGISTRY["minimal"]
    t += "/-- `HTMLTreeBuilder.DEFAULT_PRESERVE_WHITESPACE_TAGS` -/\n"
    t += f"def preserveWhitespaceTags : List (List Nat) := [{', '.join(lean_str(x) for x in sorted(HTMLTreeBuilder.DEFAULT_PRESERVE_WHITESPACE_TAGS))}]\n"
    t += "/-- `HTMLTreeBuilder.DEFAULT_EMPTY_ELEMENT_TAGS` -/\n"
    t += f"def emptyElementTags : List (List Nat) := [{', '.join(lean_str(x) for x in sorted(HTMLTreeBuilder.DEFAULT_EMPTY_ELEMENT_TAGS))}]\n"
    from bs4.dammit import EntitySubstitution
    sub = fm.entity_substitution
    t += ("/-- `HTMLFormatter.REGISTRY['minimal'].entity_substitution` is `EntitySubstitution.substitute_xml` (every `&`, `<`, `>` "
          f"escaped); live: {getattr(sub, '__qualname__', repr(sub))} -/\n")
    same = getattr(sub, "__func__", sub) is getattr(EntitySubstitution.substitute_xml, "__func__", EntitySubstitution.substitute_xml)
    t += f"def minimalFormatterIsSubstituteXml : Bool := {'true' if same else 'false'}\n"
    t += f"def minimalFormatterSubstitution : List Nat := {lean_str(getattr(sub, '__name__', '?'))}\n"
    t += "/-- the minimal HTML formatter: cdata_containing_tags, indent, void_element_close_prefix -/\n"
    t += f"def cdataContainingTags : List (List Nat) := [{', '.join(lean_str(x) for x in sorted(fm.cdata_containing_tags))}]\n"
    t += f"def formatterIndent : List Nat := {lean_str(fm.indent)}\n"
    t += f"def voidElementClosePrefix : List Nat := {lean_str(fm.void_element_close_prefix or '')}\n"
    t += "/-- `bytes([b]).decode('windows-1252')`; undefined bytes are 0x110000 + b -/\n"
    t += f"def cp1252Decode : List Nat := {lean_nat_list(decode_table('windows-1252'))}\n"
    t += "/-- `html._invalid_charrefs` (numeric reference -> replacement text) -/\n"
    items = [f"({k}, {lean_str(v)})" for k, v in sorted(html._invalid_charrefs.items())]
    t += f"def invalidCharrefs : List (Nat × List Nat) := [{', '.join(items)}]\n"
    t += "/-- `html._invalid_codepoints` (numeric references that vanish) -/\n"
    t += f"def invalidCodepoints : List Nat := {lean_nat_list(sorted(html._invalid_codepoints))}\n"
    t += "/-- decode tables of single-byte codecs of this CPython (undefined bytes are 0x110000 + b) -/\n"
    for enc in SINGLE_BYTE:
        nm = "sb_" + re.sub(r"[^a-z0-9]", "_", enc)
        t += f"def {nm} : List Nat := {lean_nat_list(decode_table(enc))}\n"
    pairs = [f"({lean_str(enc)}, sb_{re.sub(r'[^a-z0-9]', '_', enc)})" for enc in SINGLE_BYTE]
    t += f"def sbCodecs : List (List Nat × List Nat) := [{', '.join(pairs)}]\n"
    t += "end BS.Gen.EncodingOut\n"
    yield "EncodingOut.lean", t


ALL = [gen_encoding_out]
