"""C09 tables: the live entity tables of bs4.dammit.EntitySubstitution, the alternation particles parsed back from the
*pattern strings* of the two compiled regexes, the formatter registry, and the stdlib facts the reader models take as
parameters (html.entities.html5, cp1252, html._invalid_*, re's \\w and \\d)."""
import re
from gen_tables import lean_nat_list, lean_str, chunked_def, HEADER

def chunked_def_r(name, ty, items, chunk=32):
    """like gen_tables.chunked_def, but the chunks are appended right-nested (`a ++ (b ++ (c ++ …))`): the kernel
    then evaluates the whole list in linear instead of quadratic time."""
    out, parts = [], []
    for i in range(0, max(len(items), 1), chunk):
        part = f"{name}_{i // chunk}"
        parts.append(part)
        out.append(f"def {part} : List ({ty}) := [" + ", ".join(items[i:i + chunk]) + "]")
    expr = parts[-1]
    for part in reversed(parts[:-1]):
        expr = f"{part} ++ ({expr})"
    out.append(f"def {name} : List ({ty}) := {expr}")
    return "\n".join(out) + "\n"


PARTICLE_RE = re.compile(r"(.)\(\?!\[(.+)\]\)", re.S)


def parse_pattern(pattern):
    """'(p1|p2|…)' -> ([(key, lookahead_class)], shape_ok). shape_ok says that re-assembling the parsed particles
    gives the pattern back character for character (so nothing of the pattern is outside the modelled shapes)."""
    ok = pattern.startswith("(") and pattern.endswith(")")
    parts = pattern[1:-1].split("|")
    out, rebuilt = [], []
    for x in parts:
        m = PARTICLE_RE.fullmatch(x)
        if m:
            out.append((m.group(1), m.group(2)))
            rebuilt.append("%s(?![%s])" % (m.group(1), m.group(2)))
        else:
            out.append((x, ""))
            rebuilt.append(x)
            if x == "" or any(c in x for c in "\\()[]{}?*+.^$"):
                ok = False
        if m and any(c in m.group(2) for c in "\\]^-"):
            ok = False
    if "(" + "|".join(rebuilt) + ")" != pattern:
        ok = False
    return out, ok


def code(s):
    return [ord(c) for c in s]


def bst(items, name, ty="Dict", inline=20):
    """Balanced search tree literal over items sorted by key (lists of code points), split into defs so that no
    single literal is deep. Returns (defs_text, root_name)."""
    defs = []
    counter = [0]

    def expr(lo, hi):
        if lo >= hi:
            return ".leaf"
        mid = (lo + hi) // 2
        k, v = items[mid]
        return f"(.node {sub(lo, mid)} {lean_nat_list(k)} {lean_nat_list(v)} {sub(mid + 1, hi)})"

    def sub(lo, hi):
        if hi - lo <= inline:
            return expr(lo, hi)
        counter[0] += 1
        nm = f"{name}_{counter[0]}"
        body = expr(lo, hi)
        defs.append(f"def {nm} : {ty} := {body}")
        return nm

    root = expr(0, len(items))
    defs.append(f"def {name} : {ty} := {root}")
    return "\n".join(defs) + "\n"


def ranges(pred):
    out = []
    for c in range(0x110000):
        if pred(c):
            if out and out[-1][1] == c - 1:
                out[-1][1] = c
            else:
                out.append([c, c])
    return out


def gen_entities():
    import html
    from html.entities import html5
    from bs4.dammit import EntitySubstitution as E
    amp_parts, ok1 = parse_pattern(E.CHARACTER_TO_HTML_ENTITY_WITH_AMPERSAND_RE.pattern)
    parts, ok2 = parse_pattern(E.CHARACTER_TO_HTML_ENTITY_RE.pattern)
    # canonical order (sorted by key): the order inside the pattern comes from iterating a `set` of str and differs
    # from process to process; theorem `order_irrelevant` is what makes the canonical order representative.
    amp_parts = sorted((code(k), sorted(code(la))) for k, la in amp_parts)
    parts = sorted((code(k), sorted(code(la))) for k, la in parts)
    flags_ok = (E.CHARACTER_TO_HTML_ENTITY_RE.flags == re.U and E.CHARACTER_TO_HTML_ENTITY_WITH_AMPERSAND_RE.flags == re.U)
    fixed_ok = (E.AMPERSAND_OR_BRACKET.pattern == "([<>&])" and E.AMPERSAND_OR_BRACKET.flags == re.U
                and E.BARE_AMPERSAND_OR_BRACKET.pattern == "([<>]|&(?!#\\d+;|#x[0-9a-fA-F]+;|\\w+;))"
                and E.BARE_AMPERSAND_OR_BRACKET.flags == re.U
                and E.ANY_ENTITY_RE.pattern == "&(#\\d+|#x[0-9a-fA-F]+|\\w+);"
                and E.ANY_ENTITY_RE.flags == (re.U | re.I))

    so = getattr(E, "SEMICOLON_OPTIONAL_ENTITY_RE", None)
    legacy = so.pattern.split("|") if so is not None else []
    legacy_ok = so is not None and so.flags == re.U and all(re.fullmatch("[A-Za-z][A-Za-z0-9]*", x) for x in legacy)
    fixed_ok = (fixed_ok and legacy_ok and getattr(E, "ENTITY_NAME_RE", None) is not None
                and E.ENTITY_NAME_RE.pattern == "[a-zA-Z][-.a-zA-Z0-9]*" and E.ENTITY_NAME_RE.flags == re.U
                and E.AMPERSAND_RE.pattern == "&" and E.AMPERSAND_RE.flags == re.U)

    def plist(ps):
        return [f"⟨{lean_nat_list(k)}, {lean_nat_list(la)}⟩" for k, la in ps]

    t = HEADER + "import BSModel.Model.Entities\nnamespace BS.Gen.C09\nopen BS.Entities\n"
    t += "/-- particles of CHARACTER_TO_HTML_ENTITY_WITH_AMPERSAND_RE.pattern, canonical order -/\n"
    t += chunked_def_r("particlesAmp", "Particle", plist(amp_parts))
    t += "/-- particles of CHARACTER_TO_HTML_ENTITY_RE.pattern, canonical order -/\n"
    t += chunked_def_r("particles", "Particle", plist(parts))
    t += f"/-- the two pattern strings consist of nothing but the modelled particle shapes (re-assembled = pattern), flags = re.U -/\n"
    t += f"def patternShapeOk : Bool := {'true' if (ok1 and ok2 and flags_ok) else 'false'}\n"
    t += f"/-- AMPERSAND_OR_BRACKET, BARE_AMPERSAND_OR_BRACKET, ANY_ENTITY_RE have the pattern text and flags the model mirrors -/\n"
    t += f"def fixedPatternsAsModelled : Bool := {'true' if fixed_ok else 'false'}\n"
    t += "/-- CHARACTER_TO_HTML_ENTITY -/\n"
    t += bst(sorted((code(k), code(v)) for k, v in E.CHARACTER_TO_HTML_ENTITY.items()), "toName")
    t += "/-- HTML_ENTITY_TO_CHARACTER -/\n"
    t += bst(sorted((code(k), code(v)) for k, v in E.HTML_ENTITY_TO_CHARACTER.items()), "toChar")
    t += "/-- html.entities.html5 (what html.unescape, hence attribute values, uses) -/\n"
    t += bst(sorted((code(k), code(v)) for k, v in html5.items()), "html5")
    t += "/-- CHARACTER_TO_XML_ENTITY -/\n"
    t += "def xmlTable : List (Nat × PStr) := [" + ", ".join(
        f"({ord(k)}, {lean_str(v)})" for k, v in sorted(E.CHARACTER_TO_XML_ENTITY.items()) if len(k) == 1) + "]\n"
    # stdlib facts
    cp = []
    for b in range(128, 256):
        try:
            cp.append((b, ord(bytes([b]).decode("windows-1252"))))
        except UnicodeDecodeError:
            pass
    t += "/-- bytes([b]).decode('windows-1252') for the bytes 128–255 that decode -/\n"
    t += chunked_def_r("cp1252", "Nat × Nat", [f"({a}, {b})" for a, b in cp])
    t += "/-- html._invalid_charrefs -/\n"
    t += "def invalidCharrefs : List (Nat × PStr) := [" + ", ".join(
        f"({k}, {lean_str(v)})" for k, v in sorted(html._invalid_charrefs.items())) + "]\n"
    t += "/-- html._invalid_codepoints -/\n"
    t += chunked_def_r("invalidCodepoints", "Nat", [str(c) for c in sorted(html._invalid_codepoints)])
    w = re.compile(r"\w")
    d = re.compile(r"\d")
    t += "/-- code point ranges matched by re's \\w (str pattern) -/\n"
    t += chunked_def_r("wordRanges", "Nat × Nat", [f"({a}, {b})" for a, b in ranges(lambda c: w.match(chr(c)) is not None)])
    t += "/-- code point ranges matched by re's \\d (str pattern) -/\n"
    t += chunked_def_r("digitRanges", "Nat × Nat", [f"({a}, {b})" for a, b in ranges(lambda c: d.match(chr(c)) is not None)])
    t += "/-- alternatives of SEMICOLON_OPTIONAL_ENTITY_RE.pattern (empty when the tree under test has no such regex) -/\n"
    t += chunked_def_r("legacy", "PStr", [lean_nat_list(code(x)) for x in sorted(legacy)])
    t += ("def htmlTable : Tbl := { particles := particles, particlesAmp := particlesAmp, toName := toName, toChar := toChar, "
          "html5 := html5, cp1252 := cp1252, invalidCharrefs := invalidCharrefs, invalidCodepoints := invalidCodepoints, "
          "word := wordRanges, digit := digitRanges, legacy := legacy }\n")
    t += "end BS.Gen.C09\n"
    yield "Entities.lean", t


def gen_formatters():
    """the formatter registries and the defaults of `cdata_containing_tags` (small file of its own: a change here must not
    force the big entity tables to be re-elaborated)"""
    from bs4.dammit import EntitySubstitution as E
    from bs4.formatter import Formatter, HTMLFormatter, XMLFormatter
    t = HEADER + "import BSModel.Model.Entities\nnamespace BS.Gen.C09\nopen BS.Entities\n"
    # formatter registry: name -> which substitution function
    fn_code = {None: 0}
    for i, nm in enumerate(["substitute_xml", "substitute_html", "substitute_html5",
                            "substitute_xml_containing_entities", "substitute_html5_raw"]):
        fn_code[getattr(E, nm).__func__] = i + 1

    def fcode(f):
        es = f.entity_substitution
        if es is None:
            return 0
        return fn_code.get(getattr(es, "__func__", es), 99)

    def reg(r):
        items = sorted(((code(k) if k is not None else []), (0 if k is None else 1), fcode(f),
                        sorted(code(x) for x in f.cdata_containing_tags)) for k, f in r.items())
        return "[" + ", ".join(
            f"⟨{lean_nat_list(k)}, {'true' if isname else 'false'}, {c}, [{', '.join(lean_nat_list(x) for x in cd)}]⟩"
            for k, isname, c, cd in items) + "]"

    t += "/-- HTMLFormatter.REGISTRY: key (code points; `named = false` is the key None), function code\n"
    t += "    (0 None, 1 substitute_xml, 2 substitute_html, 3 substitute_html5, 4 …_containing_entities, 5 …_html5_raw, 99 other), cdata_containing_tags -/\n"
    t += f"def htmlRegistry : List RegEntry := {reg(HTMLFormatter.REGISTRY)}\n"
    t += f"def xmlRegistry : List RegEntry := {reg(XMLFormatter.REGISTRY)}\n"
    def names(xs):
        return "[" + ", ".join(lean_nat_list(code(x)) for x in sorted(xs)) + "]"

    t += "/-- Formatter.HTML_DEFAULTS['cdata_containing_tags'] -/\n"
    t += f"def htmlDefaultCdata : List PStr := {names(Formatter.HTML_DEFAULTS['cdata_containing_tags'])}\n"
    t += "/-- cdata_containing_tags of Formatter(language='xml') and of Formatter(language='html') built with the option left at None -/\n"
    t += f"def xmlFormatterCdata : List PStr := {names(Formatter(language=Formatter.XML).cdata_containing_tags)}\n"
    t += f"def htmlFormatterCdata : List PStr := {names(Formatter(language=Formatter.HTML).cdata_containing_tags)}\n"
    t += "end BS.Gen.C09\n"
    yield "EntitiesFormatters.lean", t


ALL = [gen_entities, gen_formatters]
