"""C10 has no data tables: the model's only constants are the literal strings "class", "class_", "Tag", "__",
"contents", ":" and " " of filter.py/element.py. They are cross-checked against the live code here (a changed
literal changes the generated file, and the `decide`d obligations in Props/C10.lean that mention them)."""
from gen_tables import lean_str, HEADER


def gen_search_consts():
    import inspect
    from bs4.filter import SoupStrainer
    from bs4.element import Tag
    from bs4 import BeautifulSoup
    src_init = inspect.getsource(SoupStrainer.__init__)
    src_ga = inspect.getsource(Tag.__getattr__)
    # behavioural probes of the live code for the literals the model hard-wires
    s = SoupStrainer(class_="u")
    class_key = next(iter(s.attribute_rules))
    sugar_key = next(iter(SoupStrainer(None, "u").attribute_rules))
    root_name = BeautifulSoup.ROOT_TAG_NAME
    t = HEADER + "import BSModel.Base.PStr\nnamespace BS.Gen.Search\n"
    t += f"/-- key that the kwarg `class_` is stored under by the live SoupStrainer -/\ndef classKwTarget : List Nat := {lean_str(class_key)}\n"
    t += f"/-- key a non-dict `attrs` is stored under -/\ndef sugarTarget : List Nat := {lean_str(sugar_key)}\n"
    t += f"def rootTagName : List Nat := {lean_str(root_name)}\n"
    t += f"def getattrMentionsTagSuffix : Bool := {'true' if 'endswith(\"Tag\")' in src_ga else 'false'}\n"
    t += f"def getattrGuardsContents : Bool := {'true' if '\"contents\"' in src_ga else 'false'}\n"
    t += "end BS.Gen.Search\n"
    yield "Search.lean", t


ALL = [gen_search_consts]


# ---------------------------------------------------------------------------------------------------------------------
# forwarding glue: how every find_* wrapper / shorthand hands its arguments on (read from the live source through `ast`)
# ---------------------------------------------------------------------------------------------------------------------
def _c10_forwarders():
    import ast, inspect, textwrap
    from bs4.element import PageElement, Tag

    def enc(node, params, locals_):
        if isinstance(node, ast.Name):
            if node.id in locals_:
                return "l:" + locals_[node.id]
            return "p:" + node.id
        if isinstance(node, ast.Constant):
            return "c:" + repr(node.value)
        if isinstance(node, ast.Attribute) and isinstance(node.value, ast.Name) and node.value.id == "self":
            return "a:" + node.attr
        if isinstance(node, ast.BinOp) and isinstance(node.left, ast.Name) and isinstance(node.right, ast.Constant):
            return "p:" + node.left.id + "+" + repr(node.right.value)
        return "?:" + ast.dump(node)[:40]

    def callee_name(f):
        parts = []
        while isinstance(f, ast.Attribute):
            parts.append(f.attr)
            f = f.value
        parts.append(f.id if isinstance(f, ast.Name) else "?")
        return ".".join(reversed(parts))

    def local_defs(fn, params):
        """locals assigned from `self.<attr>` (possibly under `if not <param>:`): 'descendants|!recursive:children'"""
        out = {}
        for st in fn.body:
            if isinstance(st, ast.Assign) and len(st.targets) == 1 and isinstance(st.targets[0], ast.Name):
                out[st.targets[0].id] = enc(st.value, params, {})[2:] if enc(st.value, params, {}).startswith("a:") else "?"
            if isinstance(st, ast.If) and isinstance(st.test, ast.UnaryOp) and isinstance(st.test.op, ast.Not) \
                    and isinstance(st.test.operand, ast.Name):
                for sub in st.body:
                    if isinstance(sub, ast.Assign) and isinstance(sub.targets[0], ast.Name) and sub.targets[0].id in out:
                        v = enc(sub.value, params, {})
                        out[sub.targets[0].id] += f"|!{st.test.operand.id}:" + (v[2:] if v.startswith("a:") else "?")
        return out

    def params_of(f):
        sig = inspect.signature(f)
        names = [n for n, p in sig.parameters.items() if n != "self" and p.kind in (p.POSITIONAL_OR_KEYWORD, p.POSITIONAL_ONLY)]
        star = any(p.kind == p.VAR_KEYWORD for p in sig.parameters.values())
        return names, star

    rows = []
    wrappers = [(PageElement, n) for n in ("find_next", "find_all_next", "find_next_sibling", "find_next_siblings", "find_previous",
                                           "find_all_previous", "find_previous_sibling", "find_previous_siblings", "find_parent",
                                           "find_parents", "_find_one")] + \
               [(Tag, n) for n in ("find", "find_all", "__call__", "select", "select_one")]
    for cls, name in wrappers:
        f = getattr(cls, name)
        fn = ast.parse(textwrap.dedent(inspect.getsource(f))).body[0]
        params, _ = params_of(f)
        locs = local_defs(fn, params)
        calls = [n for n in ast.walk(fn) if isinstance(n, ast.Call) and callee_name(n.func).split(".")[0] in ("self", "method")
                 and callee_name(n.func) not in ("self.parents",)]
        # the forwarding call: the one with the most arguments
        call = max(calls, key=lambda c: len(c.args) + len(c.keywords))
        cal = callee_name(call.func)
        if cal == "method":
            cparams, cstar = params_of(PageElement.find_all_next)
        elif cal.startswith("self.css."):
            from bs4.css import CSS
            cparams, cstar = params_of(getattr(CSS, cal.split(".")[-1]))
        else:
            owner = Tag if hasattr(Tag, cal.split(".")[-1]) else PageElement
            cparams, cstar = params_of(getattr(owner, cal.split(".")[-1]))
        args = [enc(a, params, locs) for a in call.args]
        kws = [(k.arg, enc(k.value, params, locs)) for k in call.keywords if k.arg is not None]
        star = any(k.arg is None for k in call.keywords)
        rows.append((name, params, cal, cparams, args, kws, star))
    plural = ["find_all_next", "find_all_previous", "find_next_siblings", "find_previous_siblings"]
    agree = len({tuple(params_of(getattr(PageElement, p))[0]) for p in plural}) == 1
    return rows, agree


def gen_search_glue():
    rows, agree = _c10_forwarders()
    q = lambda s: '"' + s.replace("\\", "\\\\").replace('"', '\\"') + '"'
    ls = lambda xs: "[" + ", ".join(q(x) for x in xs) + "]"
    t = HEADER + "namespace BS.Gen.Search\n"
    t += "/-- one wrapper method of the find_* family as the live source has it: its own parameters, the method it forwards to, that\n"
    t += "    method's parameters, the positional arguments and keyword arguments of the forwarding call (`p:` a parameter, `c:` a constant,\n"
    t += "    `a:` an attribute of self, `l:` a local assigned from attributes of self), and whether `**kwargs` is forwarded -/\n"
    t += "structure C10Forwarder where\n  name : String\n  params : List String\n  callee : String\n  calleeParams : List String\n"
    t += "  args : List String\n  kwargs : List (String × String)\n  starKw : Bool\n  deriving Repr, DecidableEq\n\n"
    items = []
    for name, params, cal, cparams, args, kws, star in rows:
        kwl = "[" + ", ".join(f"({q(k)}, {q(v)})" for k, v in kws) + "]"
        items.append(f"  ⟨{q(name)}, {ls(params)}, {q(cal)}, {ls(cparams)}, {ls(args)}, {kwl}, {'true' if star else 'false'}⟩")
    t += "def c10Forwarders : List C10Forwarder := [\n" + ",\n".join(items) + "]\n\n"
    t += f"/-- the four plural methods `_find_one` is given have the same parameter list -/\ndef c10PluralSigsAgree : Bool := {'true' if agree else 'false'}\n"
    t += "end BS.Gen.Search\n"
    yield "SearchGlue.lean", t


def gen_search_aliases():
    """the deprecated camelCase / BS3 aliases of the search methods: (old name, the method `getattr(self, new_name)` resolves at
    call time), read from the closures of the live alias functions"""
    from bs4.element import PageElement, Tag
    rows = []
    for cls in (PageElement, Tag):
        for attr, f in vars(cls).items():
            code = getattr(f, "__code__", None)
            if code is None or code.co_name != "alias" or not f.__closure__:
                continue
            cells = dict(zip(code.co_freevars, (c.cell_contents for c in f.__closure__)))
            new = cells.get("new_name")
            if isinstance(new, str) and (new.startswith("find") or str(cells.get("old_name", "")).startswith(("find", "fetch"))):
                rows.append((attr, str(cells.get("old_name")), new))
    rows.sort()
    q = lambda x: '"' + x + '"'
    t = HEADER + "namespace BS.Gen.Search\n"
    t += "/-- (attribute name, the old name the alias announces, the method it calls) for every deprecated alias of a search method -/\n"
    t += "def c10Aliases : List (String × String × String) := [\n" + ",\n".join(f"  ({q(a)}, {q(o)}, {q(n)})" for a, o, n in rows) + "]\n"
    t += "end BS.Gen.Search\n"
    yield "SearchAliases.lean", t


ALL = [gen_search_consts, gen_search_glue, gen_search_aliases]
