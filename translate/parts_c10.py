"""C10 has no data tables: the model's only constants are the literal strings "class", "class_", "Tag", "__",
"contents", ":" and " " of filter.py/element.py. They are cross-checked against the live code here (a changed
literal changes the generated file, and the `decide`d obligations in Props/C10.lean that mention them)."""
from gen_tables import lean_str, HEADER


def gen_search_consts():
    import inspect
    from bs4.filter import SoupStrainer
    from bs4.element import Tag
    from bs4 import BeautifulSoup
    src_init = inspect.getsource(SoupStrainer.__init__)
    src_ga = inspect.getsource(Tag.__getattr__)
    # behavioural probes of the live code for the literals the model hard-wires
    s = SoupStrainer(class_="u")
    class_key = next(iter(s.attribute_rules))
    sugar_key = next(iter(SoupStrainer(None, "u").attribute_rules))
    root_name = BeautifulSoup.ROOT_TAG_NAME
    t = HEADER + "import BSModel.Base.PStr\nnamespace BS.Gen.Search\n"
    t += f"/-- key that the kwarg `class_` is stored under by the live SoupStrainer -/\ndef classKwTarget : List Nat := {lean_str(class_key)}\n"
    t += f"/-- key a non-dict `attrs` is stored under -/\ndef sugarTarget : List Nat := {lean_str(sugar_key)}\n"
    t += f"def rootTagName : List Nat := {lean_str(root_name)}\n"
    t += f"def getattrMentionsTagSuffix : Bool := {'true' if 'endswith(\"Tag\")' in src_ga else 'false'}\n"
    t += f"def getattrGuardsContents : Bool := {'true' if '\"contents\"' in src_ga else 'false'}\n"
    t += "end BS.Gen.Search\n"
    yield "Search.lean", t


ALL = [gen_search_consts]
