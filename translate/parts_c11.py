"""C11 — constants of the call-depth accounting that come from the running interpreter and the live builder.

Gen/C11Tables.lean : `sys.getrecursionlimit()`; the tag-name universe of the harness' protocol (harness/c11.py NAME_CODE);
                     `HTMLParserTreeBuilder().preserve_whitespace_tags` and `.string_containers` as protocol codes (a name
                     outside the universe gets a fresh code >= 1000, so the tables are complete)."""
import os
import sys

from gen_tables import lean_nat_list, lean_str, HEADER


def gen_c11():
    sys.path.insert(0, os.path.dirname(os.path.dirname(os.path.abspath(__file__))))
    from harness.c11 import NAME_CODE
    from bs4.builder import HTMLParserTreeBuilder
    b = HTMLParserTreeBuilder()
    fresh = {}

    def code(name):
        if name in NAME_CODE:
            return NAME_CODE[name]
        return fresh.setdefault(name, 1000 + len(fresh))
    pre = sorted(b.preserve_whitespace_tags)
    sc = sorted(b.string_containers)
    t = HEADER + "import BSModel.Base.PStr\nnamespace BS.Gen\n"
    t += "/-- `sys.getrecursionlimit()` of the interpreter the check runs under -/\n"
    t += f"def c11RecursionLimit : Nat := {sys.getrecursionlimit()}\n"
    t += "/-- protocol codes of tag names (harness/c11.py NAME_CODE): " + ", ".join(f"{k}={v}" for k, v in sorted(NAME_CODE.items(), key=lambda x: x[1])) + " -/\n"
    t += "def c11NameCodes : List (PStr × Nat) := [" + ", ".join(f"({lean_str(k)}, {v})" for k, v in sorted(NAME_CODE.items(), key=lambda x: x[1])) + "]\n"
    t += f"/-- `HTMLParserTreeBuilder().preserve_whitespace_tags` = {pre} -/\n"
    t += f"def c11PreserveCodes : List Nat := {lean_nat_list(sorted(code(x) for x in pre))}\n"
    t += f"/-- `HTMLParserTreeBuilder().string_containers` keys = {sc} -/\n"
    t += f"def c11ContainerCodes : List Nat := {lean_nat_list(sorted(code(x) for x in sc))}\n"
    t += "end BS.Gen\n"
    yield "C11Tables.lean", t


ALL = [gen_c11]
