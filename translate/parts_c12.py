"""C12 — what the copy model assumes about `Tag.copy_self`, `BeautifulSoup.copy_self`, `__getstate__`, `__setstate__`, computed from
the LIVE BEHAVIOUR of the running bs4 on probe objects (spy subclasses recording the bound arguments of `__init__` / `decode` /
`reset` / `_feed`, sentinel values told apart by identity) — never from source text, never copied by hand. Renaming a local,
reordering independent statements, extracting a helper, unrolling a loop do not change any of these facts.

Gen/Copy.lean (namespace BS.Gen.Copy):
  tagInitParams        parameters of Tag.__init__ (without self), in signature order
  copySelfCtor         for EVERY parameter of Tag.__init__: what the constructor called by Tag.copy_self received for it —
                       `own` (the original's own value, by identity / equality, on two probes with complementary values), `none`,
                       `absent` (not passed), `other` (anything else, e.g. another parameter's value), `raised`
  copySelfClone        for every parameter: what the clone holds in the corresponding attribute — `same` / `none` / `rebuilt`
                       (attrs: see the facts) / `noattr` (builder: a Tag keeps none) / `other`
  copySelfFacts        named facts observed on the clone (attrs dict: same class, fresh object, key order kept, list values fresh and
                       of the same class with the same items — also a plain `list` —, other values identical objects, an empty dict of
                       a user class stays of that class; can_be_empty_element / hidden carried whatever their value; no parent, no
                       contents, no links; class of the clone; one constructor call; the original untouched)
  soupCopySelfCtor     for every parameter of BeautifulSoup.__init__: `empty` ('' markup) / `own` (the original's builder object) /
                       `none` / `absent` / `other`
  soupCopySelfFacts    named facts about the clone of a BeautifulSoup (same builder object, original_encoding carried, empty, root name ...)
  getstateDecodeCalls  how often __getstate__ called self.decode
  getstateDecode       for every parameter of BeautifulSoup.decode: `default` (not passed, or the default value) / `none` / `other`
  getstateFacts        named facts about the state dict (markup IS the value decode returned, even with a left-over `.markup`; contents
                       empty; the four links None or absent; _most_recent_element absent; no tree object but the document itself reachable; builder replaced by
                       its class exactly when not picklable; every other key kept; the object itself untouched)
  setstateCalls        the order in which __setstate__ called `reset` and `_feed` (each entry one call)
  setstateFacts        named facts (builder class -> instance, None -> HTMLParserTreeBuilder, an instance — also a falsy one — kept;
                       builder.soup is the object; other fields kept; the tree is the parse of state['markup']; `.markup` keeps it)
  rootTagName          BeautifulSoup.ROOT_TAG_NAME
"""
import inspect
import warnings

from gen_tables import lean_str, HEADER


# ------------------------------------------------------------------------------------------------------------------
# Tag.copy_self

# parameter of Tag.__init__ -> attribute of a Tag that holds (the resolved form of) it
_TAG_ATTR = {"parser": "parser_class", "builder": None, "name": "name", "namespace": "namespace", "prefix": "prefix", "attrs": "attrs",
             "parent": "parent", "previous": "previous_element", "is_xml": "_is_xml", "sourceline": "sourceline",
             "sourcepos": "sourcepos", "can_be_empty_element": "can_be_empty_element",
             "cdata_list_attributes": "cdata_list_attributes", "preserve_whitespace_tags": "preserve_whitespace_tags",
             "interesting_string_types": "interesting_string_types", "namespaces": "_namespaces"}
# what the clone stores the parameter in (`_is_xml` is a property; the constructor stores `known_xml`)
_CLONE_ATTR = dict(_TAG_ATTR, is_xml="known_xml")


def _same(a, b):
    """identity, or equality of immutable scalars of the same type (str, int, bool are not told apart by identity)"""
    if a is b:
        return True
    return type(a) is type(b) and isinstance(a, (str, int, bool)) and a == b


def _probe_tag_once(flip):
    """one original (a spy subclass of Tag inside a small tree), its copy_self(): (ctor kinds, clone kinds, facts)"""
    from bs4.element import Tag, NavigableString, PageElement
    from bs4 import BeautifulSoup
    sig = inspect.signature(Tag.__init__)
    params = [p for p in sig.parameters if p != "self"]
    calls = []

    class SpyTag(Tag):
        def __init__(self, *a, **kw):
            calls.append(sig.bind(self, *a, **kw).arguments)
            super().__init__(*a, **kw)

    class UserDict(dict):
        pass

    class UserList(list):
        pass

    class UserStr(str):
        pass

    cbe = bool(flip)
    xml = not flip
    sent = dict(name="nm" + str(flip), namespace="urn:ns" + str(flip), prefix="pf" + str(flip), sourceline=101 + flip, sourcepos=202 + flip,
                can_be_empty_element=cbe, cdata_list_attributes={"*": {"k"}}, preserve_whitespace_tags={"pw"},
                interesting_string_types={NavigableString}, namespaces={"p": "urn:p"})
    orig = SpyTag(None, None, **sent)
    # things the constructor does not take, or derives: set afterwards, non-default
    orig.parser_class = BeautifulSoup
    orig.hidden = True
    orig.can_be_empty_element = cbe
    vlist, plist, ustr = UserList(["a", "b"]), ["x", "y"], UserStr("u")
    values = [("class", vlist), ("id", "i"), ("n", 2), ("z", None), ("rel", plist), ("u", ustr), ("t", True), ("f", 1.5)]
    adict = UserDict()
    for k, v in values:
        dict.__setitem__(adict, k, v)
    orig.attrs = adict
    # a context: a parent that alone knows the flavour, siblings on both sides, children
    par = Tag(name="par", is_xml=xml)
    left, right, kid = Tag(name="l"), Tag(name="r"), Tag(name="k")
    par.append(left)
    par.append(orig)
    par.append(right)
    orig.append(kid)
    orig.append(NavigableString("text"))
    orig.known_xml = None
    def snap():
        return ([id(x) for x in (orig.parent, orig.next_sibling, orig.previous_sibling, orig.next_element, orig.previous_element)],
                [id(x) for x in orig.contents], [(k, id(v)) for k, v in adict.items()], id(orig.attrs))

    before = snap()
    del calls[:]
    clone = orig.copy_self()

    ctor = {}
    if len(calls) >= 1:
        got = calls[0]
        for p in params:
            if p not in got:
                ctor[p] = "absent"
                continue
            v = got[p]
            attr = _TAG_ATTR.get(p)
            own = getattr(orig, attr) if attr else None
            if p == "parser":
                ctor[p] = "none" if v is None else ("own" if type(v) is orig.parser_class else "other")
            elif v is None:
                ctor[p] = "none"
            elif attr and _same(v, own):
                ctor[p] = "own"
            else:
                ctor[p] = "other"
    else:
        ctor = {p: "absent" for p in params}

    held = {}
    for p in params:
        attr = _CLONE_ATTR.get(p)
        if attr is None:
            held[p] = "noattr" if "builder" not in vars(clone) else "other"
            continue
        c = getattr(clone, attr, PageElement)     # PageElement: a value no attribute holds
        own = getattr(orig, _TAG_ATTR[p])
        if p == "attrs":
            held[p] = "rebuilt" if (c is not own and isinstance(c, dict) and c == own) else ("same" if c is own else "other")
        elif c is None and own is not None:
            held[p] = "none"
        elif _same(c, own):
            held[p] = "same"
        else:
            held[p] = "other"

    ca = clone.attrs
    items = list(ca.items()) if isinstance(ca, dict) else []
    lists = [(k, v) for k, v in values if isinstance(v, list)]
    scalars = [(k, v) for k, v in values if not isinstance(v, list)]
    cd = dict(items)
    facts = {
        "clone_is_new_object_of_same_class": clone is not orig and type(clone) is SpyTag,
        "one_constructor_call": len(calls) == 1,
        "attrs_same_class": type(ca) is UserDict,
        "attrs_fresh_object": ca is not adict,
        "attrs_keys_in_order": [k for k, _ in items] == [k for k, _ in values],
        "list_values_fresh": all(k in cd and cd[k] is not v for k, v in lists),
        "list_values_same_class_same_items": all(k in cd and type(cd[k]) is type(v) and list(cd[k]) == list(v) for k, v in lists),
        "other_values_identical": all(k in cd and cd[k] is v for k, v in scalars),
        "can_be_empty_element_carried": clone.can_be_empty_element is cbe,
        "hidden_carried": clone.hidden is True,
        "no_parent": clone.parent is None,
        "no_contents": len(clone.contents) == 0 and clone.contents is not orig.contents,
        "no_links": all(getattr(clone, a, 0) is None for a in ("next_element", "next_sibling", "previous_element", "previous_sibling")),
        "original_untouched": before == snap() and orig.attrs is adict
                              and [(k, id(v)) for k, v in values] == [(k, id(v)) for k, v in adict.items()],
    }
    # the defaults: nothing is carried by accident of the probe's values
    plain = SpyTag(None, None, "q")
    plain.attrs = UserDict()
    c2 = plain.copy_self()
    facts["empty_attrs_same_class_fresh"] = type(c2.attrs) is UserDict and c2.attrs is not plain.attrs and len(c2.attrs) == 0
    facts["hidden_false_carried"] = c2.hidden is False
    plain.can_be_empty_element = None
    facts["can_be_empty_element_none_carried"] = plain.copy_self().can_be_empty_element is None
    return ctor, held, facts


def _merge(a, b, bad):
    return {k: (a[k] if a.get(k) == b.get(k) else bad) for k in a}


def probe_tag_copy_self():
    from bs4.element import Tag
    params = [p for p in inspect.signature(Tag.__init__).parameters if p != "self"]
    try:
        c0, h0, f0 = _probe_tag_once(0)
        c1, h1, f1 = _probe_tag_once(1)
        ctor, held = _merge(c0, c1, "other"), _merge(h0, h1, "other")
        facts = {k: bool(f0[k] and f1.get(k)) for k in f0}
        raised = None
    except Exception as ex:       # the probe objects could not even be copied: every fact is lost
        raised = f"{type(ex).__name__}: {ex}"
        ctor, held = {p: "raised" for p in params}, {p: "raised" for p in params}
        facts = {"probe_ran": False}
    return params, [(p, ctor.get(p, "absent")) for p in params], [(p, held.get(p, "other")) for p in params], sorted(facts.items()), raised


# ------------------------------------------------------------------------------------------------------------------
# BeautifulSoup.copy_self

def probe_soup_copy_self():
    from bs4 import BeautifulSoup
    from bs4.builder import HTMLParserTreeBuilder
    sig = inspect.signature(BeautifulSoup.__init__)
    params = [p for p in sig.parameters if p != "self"]
    calls = []

    class SpySoup(BeautifulSoup):
        def __init__(self, *a, **kw):
            calls.append(sig.bind(self, *a, **kw).arguments)
            super().__init__(*a, **kw)

    try:
        builder = HTMLParserTreeBuilder()
        orig = SpySoup("<p class='a'>x</p><!--c-->", builder=builder)
        orig.original_encoding = "x-sentinel-encoding"
        rendering = orig.decode()
        del calls[:]
        clone = orig.copy_self()
        ctor = {}
        got = calls[0] if calls else {}
        for p in params:
            if p not in got:
                ctor[p] = "absent"
                continue
            v = got[p]
            kind = sig.parameters[p].kind
            if kind in (inspect.Parameter.VAR_KEYWORD, inspect.Parameter.VAR_POSITIONAL):
                ctor[p] = "absent" if not v else "other"
            elif v is None:
                ctor[p] = "none"
            elif p == "markup" and isinstance(v, (str, bytes)) and len(v) == 0:
                ctor[p] = "empty"
            elif p == "builder" and v is builder:
                ctor[p] = "own"
            else:
                ctor[p] = "other"
        facts = {
            "clone_is_new_object_of_same_class": clone is not orig and type(clone) is SpySoup,
            "one_constructor_call": len(calls) == 1,
            "same_builder_object": clone.builder is builder and orig.builder is builder,
            "original_encoding_carried": clone.original_encoding == "x-sentinel-encoding",
            "clone_is_empty": len(clone.contents) == 0 and clone.decode() == "",
            "clone_has_root_name": clone.name == BeautifulSoup.ROOT_TAG_NAME and clone.hidden is True,
            "no_parent_no_siblings": clone.parent is None and clone.next_sibling is None and clone.previous_sibling is None,
            "original_untouched": orig.decode() == rendering and orig.original_encoding == "x-sentinel-encoding",
        }
        raised = None
    except Exception as ex:
        raised = f"{type(ex).__name__}: {ex}"
        ctor = {p: "raised" for p in params}
        facts = {"probe_ran": False}
    return [(p, ctor.get(p, "absent")) for p in params], sorted(facts.items()), raised


# ------------------------------------------------------------------------------------------------------------------
# BeautifulSoup.__getstate__

def _tree_objects(v, depth=3):
    """PageElements reachable from a value of the state dict through plain containers"""
    from bs4.element import PageElement
    if isinstance(v, PageElement):
        return [v]
    if depth and isinstance(v, (list, tuple, set, frozenset)):
        return [x for i in v for x in _tree_objects(i, depth - 1)]
    if depth and isinstance(v, dict):
        return [x for k, i in v.items() for x in _tree_objects(k, depth - 1) + _tree_objects(i, depth - 1)]
    return []


_LINKS = ("next_element", "next_sibling", "previous_element", "previous_sibling")


def probe_getstate():
    from bs4 import BeautifulSoup
    from bs4.element import Tag
    from bs4.builder import HTMLParserTreeBuilder
    sig = inspect.signature(BeautifulSoup.decode)
    params = [p for p in sig.parameters if p != "self"]
    rec = {"armed": False, "calls": [], "returned": []}

    class Markup(str):
        pass

    class SpySoup(BeautifulSoup):
        def decode(self, *a, **kw):
            r = super().decode(*a, **kw)
            if rec["armed"]:
                r = Markup(r)
                rec["calls"].append(sig.bind(self, *a, **kw).arguments)
                rec["returned"].append(r)
            return r

    def getstate(soup):
        rec["armed"], rec["calls"], rec["returned"] = True, [], []
        try:
            return soup.__getstate__()
        finally:
            rec["armed"] = False

    try:
        # probe 1: a parsed document that still holds a left-over markup, came in as bytes of some encoding, is linked into a tree on
        # every side, with a builder that cannot be pickled
        b1 = HTMLParserTreeBuilder()
        s1 = SpySoup("<p class='a b'>one<b>two</b></p><!--c-->", builder=b1)
        s1.markup = "<stale>left over</stale>"
        s1.original_encoding = "latin-1"
        s1.declared_html_encoding = "latin-1"
        other = Tag(name="elsewhere")
        other.previous_element = s1._last_descendant()       # consistent links: rendering s1 still works
        s1.next_sibling = s1.previous_sibling = s1.previous_element = other
        s1._most_recent_element = s1.p
        b1.picklable = False
        s1.user_field = ["kept", "as", "is"]
        d_before = dict(s1.__dict__)
        contents_before = list(s1.contents)
        st = getstate(s1)
        calls, returned = list(rec["calls"]), list(rec["returned"])
        dec = {}
        got = calls[0] if calls else {}
        for p in params:
            par = sig.parameters[p]
            if p not in got:
                dec[p] = "default"
            elif par.kind in (inspect.Parameter.VAR_KEYWORD, inspect.Parameter.VAR_POSITIONAL):
                dec[p] = "default" if not got[p] else "other"
            elif par.default is not inspect.Parameter.empty and (got[p] is par.default or (got[p] == par.default and
                                                                                         type(got[p]) is type(par.default))):
                dec[p] = "default"
            elif got[p] is None:
                dec[p] = "none"
            else:
                dec[p] = "other"
        special = {"contents", "markup", "builder", "_most_recent_element", *_LINKS}
        facts = {
            "state_is_new_dict": isinstance(st, dict) and st is not s1.__dict__,
            "markup_is_what_decode_returned": len(returned) == 1 and st.get("markup") is returned[0],
            "markup_is_current_tree_not_leftover": st.get("markup") == "<p class=\"a b\">one<b>two</b></p><!--c-->",
            "contents_empty": st.get("contents") == [] and st.get("contents") is not s1.contents,
            "links_none_or_absent": all(st.get(k) is None for k in _LINKS),
            "most_recent_element_absent": "_most_recent_element" not in st,
            "no_tree_object_reachable": not [x for k, v in st.items() if k != "builder" for x in _tree_objects(v) if x is not s1],
            "unpicklable_builder_replaced_by_class": st.get("builder") is HTMLParserTreeBuilder,
            "other_keys_kept_identical": all(k in st and st[k] is v for k, v in d_before.items() if k not in special)
                                         and set(st) - set(d_before) <= {"markup", "contents"},
            "object_untouched": s1.contents == contents_before and all(a is b for a, b in zip(s1.contents, contents_before))
                                and set(s1.__dict__) == set(d_before) and all(s1.__dict__[k] is v for k, v in d_before.items()),
        }
        # probe 2: picklable builder -> the object itself travels
        b2 = HTMLParserTreeBuilder()
        b2.picklable = True
        s2 = SpySoup("<a>x</a>", builder=b2)
        facts["picklable_builder_kept"] = getstate(s2).get("builder") is b2
        # probe 3: no builder
        s3 = SpySoup("<a>x</a>", builder=HTMLParserTreeBuilder())
        s3.builder = None
        st3 = getstate(s3)
        facts["builder_none_kept"] = "builder" in st3 and st3["builder"] is None
        # probe 4: an empty document whose left-over markup is all there is to lose
        s4 = SpySoup("", builder=HTMLParserTreeBuilder())
        s4.markup = "<stale/>"
        facts["empty_tree_gives_empty_markup"] = getstate(s4).get("markup") == ""
        raised = None
        ncalls = len(calls)
    except Exception as ex:
        raised = f"{type(ex).__name__}: {ex}"
        dec = {p: "raised" for p in params}
        facts = {"probe_ran": False}
        ncalls = 0
    return ncalls, [(p, dec.get(p, "default")) for p in params], sorted(facts.items()), raised


# ------------------------------------------------------------------------------------------------------------------
# BeautifulSoup.__setstate__

def probe_setstate():
    from bs4 import BeautifulSoup
    from bs4.builder import HTMLParserTreeBuilder
    log = []

    class SpySoup(BeautifulSoup):
        def reset(self, *a, **kw):
            log.append("reset")
            return super().reset(*a, **kw)

        def _feed(self, *a, **kw):
            log.append("_feed")
            return super()._feed(*a, **kw)

    class FalsyBuilder(HTMLParserTreeBuilder):
        def __bool__(self):
            return False

        def __len__(self):
            return 0

    markup = '<p class="a b">one<b>two</b></p><!--c-->'

    def state(builder):
        src = BeautifulSoup(markup, builder=HTMLParserTreeBuilder())
        d = src.__getstate__()
        d["builder"] = builder
        d["markup"] = markup
        d["original_encoding"] = "x-sentinel-encoding"
        d["user_field"] = sentinel
        return d

    def restore(builder):
        new = SpySoup.__new__(SpySoup)
        del log[:]
        new.__setstate__(state(builder))
        return new, list(log)

    sentinel = ["kept"]
    try:
        n1, calls = restore(HTMLParserTreeBuilder)
        inst = HTMLParserTreeBuilder()
        n2, calls2 = restore(inst)
        n3, calls3 = restore(None)
        falsy = FalsyBuilder()
        n4, calls4 = restore(falsy)
        ref = BeautifulSoup(markup, builder=HTMLParserTreeBuilder()).decode()
        facts = {
            "same_calls_for_every_builder_form": calls == calls2 == calls3 == calls4,
            "builder_class_instantiated": type(n1.builder) is HTMLParserTreeBuilder,
            "builder_instance_kept": n2.builder is inst,
            "builder_none_gives_htmlparser": type(n3.builder) is HTMLParserTreeBuilder,
            "falsy_builder_object_kept": n4.builder is falsy,
            "builder_soup_is_the_object": all(getattr(n.builder, "soup", None) is n for n in (n1, n2, n3, n4)),
            "other_fields_kept": all(n.original_encoding == "x-sentinel-encoding" and n.user_field is sentinel for n in (n1, n2, n3, n4)),
            "tree_is_parse_of_state_markup": all(n.decode() == ref for n in (n1, n2, n3, n4)),
            "markup_attribute_keeps_state_markup": all(n.markup == markup for n in (n1, n2, n3, n4)),
        }
        raised = None
    except Exception as ex:
        raised = f"{type(ex).__name__}: {ex}"
        calls = ["raised"]
        facts = {"probe_ran": False}
    return calls, sorted(facts.items()), raised


# ------------------------------------------------------------------------------------------------------------------

def all_probes():
    """every probe, as plain Python values (also used by harness/c12.py to name the probe a broken obligation came from)"""
    with warnings.catch_warnings():
        warnings.simplefilter("ignore")
        params, ctor, held, facts, r1 = probe_tag_copy_self()
        sctor, sfacts, r2 = probe_soup_copy_self()
        ncalls, dec, gfacts, r3 = probe_getstate()
        scalls, ssfacts, r4 = probe_setstate()
    from bs4 import BeautifulSoup
    return dict(tagInitParams=params, copySelfCtor=ctor, copySelfClone=held, copySelfFacts=facts, soupCopySelfCtor=sctor,
                soupCopySelfFacts=sfacts, getstateDecodeCalls=ncalls, getstateDecode=dec, getstateFacts=gfacts, setstateCalls=scalls,
                setstateFacts=ssfacts, rootTagName=BeautifulSoup.ROOT_TAG_NAME,
                raised=dict(copy_self=r1, soup_copy_self=r2, getstate=r3, setstate=r4))


def _pairs(name, doc, xs):
    t = f"/-- {doc}: " + "; ".join(f"{p}={v}" for p, v in xs) + " -/\n"
    return t + f"def {name} : List (BS.PStr × BS.PStr) := [" + ", ".join(f"({lean_str(p)}, {lean_str(v)})" for p, v in xs) + "]\n"


def _facts(name, doc, xs):
    t = f"/-- {doc}: " + "; ".join(f"{p}={'yes' if v else 'NO'}" for p, v in xs) + " -/\n"
    return t + f"def {name} : List (BS.PStr × Bool) := [" + ", ".join(f"({lean_str(p)}, {'true' if v else 'false'})" for p, v in xs) + "]\n"


def gen_copy():
    r = all_probes()
    t = HEADER + "import BSModel.Base.PStr\nnamespace BS.Gen.Copy\n"
    t += f"/-- {', '.join(r['tagInitParams'])} -/\n"
    t += "def tagInitParams : List BS.PStr := [" + ", ".join(lean_str(p) for p in r["tagInitParams"]) + "]\n"
    t += _pairs("copySelfCtor", "what the constructor called by Tag.copy_self received, per parameter of Tag.__init__ (probe objects)",
                r["copySelfCtor"])
    t += _pairs("copySelfClone", "what the clone holds in the attribute of each parameter", r["copySelfClone"])
    t += _facts("copySelfFacts", "observed on the clone of a probe tag", r["copySelfFacts"])
    t += _pairs("soupCopySelfCtor", "what BeautifulSoup.__init__ received from BeautifulSoup.copy_self", r["soupCopySelfCtor"])
    t += _facts("soupCopySelfFacts", "observed on the clone of a probe document", r["soupCopySelfFacts"])
    t += "/-- calls of self.decode during __getstate__ -/\n"
    t += f"def getstateDecodeCalls : Nat := {r['getstateDecodeCalls']}\n"
    t += _pairs("getstateDecode", "arguments of that call, per parameter of BeautifulSoup.decode", r["getstateDecode"])
    t += _facts("getstateFacts", "observed on the state dicts of probe documents", r["getstateFacts"])
    t += "/-- calls of reset / _feed during __setstate__, in order: " + ", ".join(r["setstateCalls"]) + " -/\n"
    t += "def setstateCalls : List BS.PStr := [" + ", ".join(lean_str(p) for p in r["setstateCalls"]) + "]\n"
    t += _facts("setstateFacts", "observed on probe objects after __setstate__", r["setstateFacts"])
    t += f"def rootTagName : BS.PStr := {lean_str(r['rootTagName'])}\n"
    t += "end BS.Gen.Copy\n"
    yield "Copy.lean", t


ALL = [gen_copy]
