"""C12 — what the copy model assumes about the live source of `Tag.copy_self`, `Tag.__init__`,
`BeautifulSoup.copy_self`, read from the running bs4 (inspect + ast), never copied by hand.

Gen/Copy.lean:
  tagInitParams        parameters of Tag.__init__ (without self), in order
  copySelfArgs         (parameter of Tag.__init__, source text of the argument), sorted by parameter, for every argument of the
                       `type(self)(...)` call in Tag.copy_self, positional ones resolved against the signature
  copySelfAfter        source text (ast.unparse) of the statements of Tag.copy_self after the constructor call
  copySelfSetattrs     the attribute names of the `for attr in (...): setattr(clone, attr, getattr(self, attr))` loop
  soupCopySelfArgs     source text of the arguments of the `type(self)(...)` call in BeautifulSoup.copy_self
  soupCopySelfAssigns  attributes assigned on the clone afterwards (`clone.X = self.X`)
  rootTagName          BeautifulSoup.ROOT_TAG_NAME
"""
import ast
import inspect
import textwrap

from gen_tables import lean_str, HEADER


def _fn_ast(fn):
    return ast.parse(textwrap.dedent(inspect.getsource(fn))).body[0]


def _ctor_call(fn_ast):
    """the `type(self)(...)` call"""
    for n in ast.walk(fn_ast):
        if isinstance(n, ast.Call) and isinstance(n.func, ast.Call) and isinstance(n.func.func, ast.Name) \
                and n.func.func.id == "type":
            return n
    raise RuntimeError("no type(self)(...) call found")


def gen_copy():
    from bs4.element import Tag
    from bs4 import BeautifulSoup
    params = [p for p in inspect.signature(Tag.__init__).parameters if p != "self"]
    f = _fn_ast(Tag.copy_self)
    call = _ctor_call(f)
    args = []
    for i, a in enumerate(call.args):
        args.append((params[i], ast.unparse(a)))
    for kw in call.keywords:
        args.append((kw.arg, ast.unparse(kw.value)))
    args.sort()          # by parameter name: positional/keyword style and order are not the model's business
    setattrs = []
    for n in ast.walk(f):
        if isinstance(n, ast.For) and isinstance(n.iter, (ast.Tuple, ast.List)):
            body_src = ast.unparse(n)
            if "setattr(clone" in body_src and "getattr(self" in body_src:
                setattrs += [e.value for e in n.iter.elts if isinstance(e, ast.Constant)]
    setattrs.sort()
    # what copy_self does to the clone after constructing it (comments and layout do not matter: ast.unparse)
    after = []
    seen_ctor = False
    for st in f.body:
        if isinstance(st, ast.Expr) and isinstance(st.value, ast.Constant):
            continue    # docstring
        if not seen_ctor:
            seen_ctor = any(n is call for n in ast.walk(st))
            continue
        if isinstance(st, ast.Return):
            continue
        after.append(ast.unparse(st))
    g = _fn_ast(BeautifulSoup.copy_self)
    scall = _ctor_call(g)
    sargs = [ast.unparse(a) for a in scall.args] + [f"{k.arg}={ast.unparse(k.value)}" for k in scall.keywords]
    sassign = []
    for n in ast.walk(g):
        if isinstance(n, ast.Assign) and len(n.targets) == 1 and isinstance(n.targets[0], ast.Attribute) \
                and isinstance(n.targets[0].value, ast.Name) and n.targets[0].value.id == "clone":
            sassign.append((n.targets[0].attr, ast.unparse(n.value)))
    t = HEADER + "import BSModel.Base.PStr\nnamespace BS.Gen.Copy\n"
    t += f"/-- {', '.join(params)} -/\n"
    t += "def tagInitParams : List BS.PStr := [" + ", ".join(lean_str(p) for p in params) + "]\n"
    t += "/-- " + "; ".join(f"{p}={v}" for p, v in args) + " -/\n"
    t += "def copySelfArgs : List (BS.PStr × BS.PStr) := [" + ", ".join(f"({lean_str(p)}, {lean_str(v)})" for p, v in args) + "]\n"
    t += f"/-- {', '.join(setattrs)} -/\n"
    t += "def copySelfSetattrs : List BS.PStr := [" + ", ".join(lean_str(p) for p in setattrs) + "]\n"
    t += "/-- the statements of Tag.copy_self between the constructor call and `return clone` -/\n"
    t += "def copySelfAfter : List BS.PStr := [" + ", ".join(lean_str(p) for p in after) + "]\n"
    t += "/-- " + "; ".join(sargs) + " -/\n"
    t += "def soupCopySelfArgs : List BS.PStr := [" + ", ".join(lean_str(p) for p in sargs) + "]\n"
    t += "/-- " + "; ".join(f"clone.{p}={v}" for p, v in sassign) + " -/\n"
    t += "def soupCopySelfAssigns : List (BS.PStr × BS.PStr) := [" + ", ".join(f"({lean_str(p)}, {lean_str(v)})" for p, v in sassign) + "]\n"
    t += f"def rootTagName : BS.PStr := {lean_str(BeautifulSoup.ROOT_TAG_NAME)}\n"
    t += "end BS.Gen.Copy\n"
    yield "Copy.lean", t


ALL = [gen_copy]
