"""C13 — tables for the text-extraction model, from the live bs4 objects and the running CPython.

Gen/TextWs.lean  : the code points `str.strip()` removes (= those with `chr(c).isspace()`), import-free
Gen/Text.lean    : `Tag.MAIN_CONTENT_STRING_TYPES`, `HTMLTreeBuilder.DEFAULT_STRING_CONTAINERS`,
                   `TreeBuilder.DEFAULT_STRING_CONTAINERS`, whether `PageElement.default` is the empty tuple,
                   and the list of NavigableString subclasses defined in bs4.element (protocol numbering)."""
import sys

from gen_tables import lean_nat_list, lean_str, HEADER

# Lean constructor of BS.Text.StrClass for each class name the model knows by name; the protocol code is the
# position in this list. Any other subclass (user-defined, or new in bs4) is `.other k` with code 100 + k.
KNOWN = ["NavigableString", "PreformattedString", "CData", "ProcessingInstruction", "XMLProcessingInstruction",
         "Comment", "Declaration", "Doctype", "Stylesheet", "Script", "TemplateString", "RubyTextString",
         "RubyParenthesisString"]


def ctor(name: str) -> str:
    return "." + name[0].lower() + name[1:]


def live_string_classes():
    """NavigableString and its subclasses defined in bs4.element, in definition order."""
    import bs4.element as E
    return [v for v in vars(E).values() if isinstance(v, type) and issubclass(v, E.NavigableString)
            and v.__module__ == E.__name__]


def lean_class(cls, extra: dict) -> str:
    """Lean term for a live class object. Classes unknown to the model get stable `.other` numbers."""
    import bs4.element as E
    if cls.__module__ == E.__name__ and cls.__name__ in KNOWN and getattr(E, cls.__name__, None) is cls:
        return ctor(cls.__name__)
    if cls not in extra:
        extra[cls] = 1000 + len(extra)
    return f"(.other {extra[cls]})"


def whitespace_code_points():
    ws = [c for c in range(sys.maxunicode + 1) if chr(c).isspace()]
    wss = set(ws)
    # `str.strip()` (no argument) removes exactly the characters for which isspace() holds: confirm on this CPython
    for c in range(sys.maxunicode + 1):
        ch = chr(c)
        if ((ch + "x" + ch).strip() == "x") != (c in wss):
            raise RuntimeError(f"str.strip and str.isspace disagree on U+{c:04X}")
    return ws


def gen_text_ws():
    ws = whitespace_code_points()
    t = HEADER + "namespace BS.Gen\n"
    t += f"/-- code points c with `chr(c).isspace()` on CPython {sys.version_info[0]}.{sys.version_info[1]}; `str.strip()` removes exactly these (checked for every code point at generation time) -/\n"
    t += f"def pyWhitespace : List Nat := {lean_nat_list(ws)}\n"
    t += "end BS.Gen\n"
    yield "TextWs.lean", t


def gen_text():
    from bs4.element import Tag, PageElement, NavigableString
    from bs4.builder import HTMLTreeBuilder, TreeBuilder
    extra: dict = {}
    # a set: order is irrelevant to `in`; sort by the model's numbering for a stable file
    order = {n: i for i, n in enumerate(KNOWN)}
    main = sorted(Tag.MAIN_CONTENT_STRING_TYPES, key=lambda c: (order.get(c.__name__, 999), c.__name__))
    t = HEADER + "import BSModel.Model.Text\nnamespace BS.Gen\nopen BS.Text\n"
    t += "/-- `Tag.MAIN_CONTENT_STRING_TYPES` (bs4/element.py) -/\n"
    t += f"def c13MainContentStringTypes : List StrClass := [{', '.join(lean_class(c, extra) for c in main)}]\n"
    for nm, cls in (("c13HtmlStringContainers", HTMLTreeBuilder), ("c13BaseStringContainers", TreeBuilder)):
        d = cls.DEFAULT_STRING_CONTAINERS
        items = [f"({lean_str(k)}, {lean_class(v, extra)})" for k, v in d.items()]
        t += f"/-- `{cls.__name__}.DEFAULT_STRING_CONTAINERS`: {', '.join(f'{k} -> {v.__name__}' for k, v in d.items()) or 'empty'} -/\n"
        t += f"def {nm} : List (PStr × StrClass) := [{', '.join(items)}]\n"
    dflt = PageElement.default
    t += "/-- `PageElement.default` is the empty tuple (so `types=()` is indistinguishable from the default) -/\n"
    t += f"def c13DefaultIsEmptyTuple : Bool := {'true' if (isinstance(dflt, tuple) and len(dflt) == 0) else 'false'}\n"
    live = live_string_classes()
    t += "/-- NavigableString and its subclasses defined in bs4.element, in definition order -/\n"
    t += f"def c13LiveStringClasses : List StrClass := [{', '.join(lean_class(c, extra) for c in live)}]\n"
    t += f"/-- their names: {', '.join(c.__name__ for c in live)} -/\n"
    t += f"def c13KnownStringClasses : List StrClass := [{', '.join(ctor(n) for n in KNOWN)}]\n"
    t += "end BS.Gen\n"
    yield "Text.lean", t


ALL = [gen_text_ws, gen_text]
