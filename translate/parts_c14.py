"""C14 — tables for the pretty-printing model, from the live bs4 objects and the running CPython.

Gen/Pretty.lean (import-free):
  whitespace            code points `str.strip()` removes (= those with `chr(c).isspace()`; agreement checked for every code point)
  htmlPreserveWs        `HTMLTreeBuilder.DEFAULT_PRESERVE_WHITESPACE_TAGS` (what every tag made by an HTML builder carries), sorted
  basePreserveWs        `TreeBuilder.DEFAULT_PRESERVE_WHITESPACE_TAGS` (XML flavour / builder-less default)
  defaultIndentInt      default of `Formatter.__init__(indent=…)` when it is an int (else 1 and `defaultIndentIsInt = false`)
  builtinIndents        (registry flavour, name, `.indent`) for every formatter in HTMLFormatter.REGISTRY / XMLFormatter.REGISTRY
                        (name `None` is rendered as the empty name)
  defaultOutputEncoding, pythonSpecificEncodings   bs4.element constants consulted by decode/encode/BeautifulSoup.decode
  stringAffixes         (class name, PREFIX, SUFFIX, is PreformattedString) for NavigableString and its subclasses"""
import inspect
import sys

from gen_tables import lean_nat_list, lean_str, HEADER


def whitespace_code_points():
    ws = [c for c in range(sys.maxunicode + 1) if chr(c).isspace()]
    wss = set(ws)
    for c in range(sys.maxunicode + 1):
        ch = chr(c)
        if ((ch + "x" + ch).strip() == "x") != (c in wss):
            raise RuntimeError(f"str.strip and str.isspace disagree on U+{c:04X}")
    return ws


def gen_pretty():
    from bs4.builder import HTMLTreeBuilder, TreeBuilder
    from bs4.formatter import Formatter, HTMLFormatter, XMLFormatter
    t = HEADER + "namespace BS.Gen.Pretty\n"
    ws = whitespace_code_points()
    t += (f"/-- code points c with `chr(c).isspace()` on CPython {sys.version_info[0]}.{sys.version_info[1]}; "
          "`str.strip()` removes exactly these (checked for every code point at generation time) -/\n")
    t += f"def whitespace : List Nat := {lean_nat_list(ws)}\n"
    for nm, cls in (("htmlPreserveWs", HTMLTreeBuilder), ("basePreserveWs", TreeBuilder)):
        s = sorted(cls.DEFAULT_PRESERVE_WHITESPACE_TAGS)
        t += f"/-- `{cls.__name__}.DEFAULT_PRESERVE_WHITESPACE_TAGS` = {s!r} -/\n"
        t += f"def {nm} : List (List Nat) := [{', '.join(lean_str(x) for x in s)}]\n"
    d = inspect.signature(Formatter.__init__).parameters["indent"].default
    is_int = isinstance(d, int)
    t += f"/-- default of the `indent` parameter of `Formatter.__init__`: {d!r} -/\n"
    t += f"def defaultIndentIsInt : Bool := {'true' if is_int else 'false'}\n"
    t += f"def defaultIndentInt : Int := {int(d) if is_int else 1}\n"
    items = []
    doc = []
    for flav, cls in (("html", HTMLFormatter), ("xml", XMLFormatter)):
        for k in sorted(cls.REGISTRY, key=lambda k: "" if k is None else k):
            f = cls.REGISTRY[k]
            name = "" if k is None else k
            items.append(f"({lean_str(flav)}, {lean_str(name)}, {lean_str(f.indent)})")
            doc.append(f"{flav}/{k}: {f.indent!r}")
    t += f"/-- `.indent` of every registered formatter — {', '.join(doc)} -/\n"
    t += f"def builtinIndents : List (List Nat × List Nat × List Nat) := [{', '.join(items)}]\n"
    import bs4.element as EL
    t += f"/-- `bs4.element.DEFAULT_OUTPUT_ENCODING` = {EL.DEFAULT_OUTPUT_ENCODING!r} (default of `eventual_encoding`/`encoding` in decode/encode) -/\n"
    t += f"def defaultOutputEncoding : List Nat := {lean_str(EL.DEFAULT_OUTPUT_ENCODING)}\n"
    import bs4 as B

    def opt_str(v):
        return "none" if v is None else f"(some {lean_str(v)})"
    for nm, fn, par in (("tagDecodeDefaultEnc", EL.Tag.decode, "eventual_encoding"),
                        ("tagDecodeContentsDefaultEnc", EL.Tag.decode_contents, "eventual_encoding"),
                        ("tagEncodeDefaultEnc", EL.Tag.encode, "encoding"),
                        ("tagEncodeContentsDefaultEnc", EL.Tag.encode_contents, "encoding"),
                        ("soupDecodeDefaultEnc", B.BeautifulSoup.decode, "eventual_encoding"),
                        ("tagPrettifyDefaultEnc", EL.Tag.prettify, "encoding")):
        d = inspect.signature(fn).parameters[par].default
        t += f"/-- default of `{par}` in `{fn.__qualname__}`: {d!r} -/\n"
        t += f"def {nm} : Option (List Nat) := {opt_str(d)}\n"
    pse = sorted(EL.PYTHON_SPECIFIC_ENCODINGS)
    t += f"/-- `bs4.element.PYTHON_SPECIFIC_ENCODINGS` = {pse!r} -/\n"
    t += f"def pythonSpecificEncodings : List (List Nat) := [{', '.join(lean_str(x) for x in pse)}]\n"
    classes = [v for v in vars(EL).values() if isinstance(v, type) and issubclass(v, EL.NavigableString)
               and v.__module__ == EL.__name__]
    rows = [f"({lean_str(c.__name__)}, {lean_str(c.PREFIX)}, {lean_str(c.SUFFIX)}, "
            f"{'true' if issubclass(c, EL.PreformattedString) else 'false'})" for c in classes]
    t += ("/-- NavigableString and its subclasses defined in bs4.element: (class name, PREFIX, SUFFIX, is a PreformattedString) — "
          + ", ".join(f"{c.__name__}: {c.PREFIX!r}..{c.SUFFIX!r}" for c in classes) + " -/\n")
    t += f"def stringAffixes : List (List Nat × List Nat × List Nat × Bool) := [{', '.join(rows)}]\n"
    t += "end BS.Gen.Pretty\n"
    yield "Pretty.lean", t


ALL = [gen_pretty]
