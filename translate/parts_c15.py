"""C15 — tables for the formatter model, from the live bs4 objects.

Gen/FormatterConsts.lean : import-free raw constants the model reads: PREFIX/SUFFIX and "is a PreformattedString" per
                           string class, `Formatter.HTML_DEFAULTS['cdata_containing_tags']`, the `Formatter.HTML`/`XML`
                           constants, `CHARACTER_TO_XML_ENTITY` restricted to what `AMPERSAND_OR_BRACKET` matches.
Gen/Formatter.lean       : (imports the model) the two registries with the option values of every registered formatter,
                           the default values of the three constructors' parameters (from `inspect.signature`), and the
                           alternatives of `CHARACTER_TO_HTML_ENTITY_WITH_AMPERSAND_RE` parsed back from the live pattern
                           (key, negative look-ahead set, replacement), sorted by key."""
import inspect
import re

from gen_tables import lean_nat_list, lean_str, chunked_def, HEADER

# protocol / model numbering of the string classes (BS.Formatter.StrKind.code)
KINDS = ["NavigableString", "PreformattedString", "CData", "ProcessingInstruction", "XMLProcessingInstruction",
         "Comment", "Declaration", "Doctype"]


def lean_opt_str(s):
    return "none" if s is None else f"(some {lean_str(s)})"


def subst_id(fn):
    """Lean term (BS.Formatter.Subst) for a live entity_substitution value."""
    from bs4.dammit import EntitySubstitution as ES
    if fn is None:
        return ".none"
    for nm, ctor in (("substitute_xml", ".xml"), ("substitute_html", ".html"), ("substitute_html5", ".html5")):
        if fn == getattr(ES, nm):
            return ctor
    return "(.custom 999)"


def lang_id(s):
    from bs4.formatter import Formatter
    if s == Formatter.HTML:
        return ".html"
    if s == Formatter.XML:
        return ".xml"
    return "(.other 999)"


def cfg_term(f):
    cd = sorted(f.cdata_containing_tags)
    return ("{ language := %s, entity_substitution := %s, void_element_close_prefix := %s, cdata_containing_tags := [%s], "
            "empty_attributes_are_booleans := %s, indent := %s }") % (
        lang_id(f.language), subst_id(f.entity_substitution), lean_opt_str(f.void_element_close_prefix),
        ", ".join(lean_str(x) for x in cd), "true" if f.empty_attributes_are_booleans else "false", lean_str(f.indent))


def indent_arg(v):
    if v is None:
        return ".none"
    if isinstance(v, bool):
        return f"(.int {int(v)})"
    if isinstance(v, int):
        return f"(.int ({v}))"
    if isinstance(v, str):
        return f"(.str {lean_str(v)})"
    return ".other"


def args_term(cls):
    """default values of cls.__init__'s option parameters as a BS.Formatter.Args literal"""
    p = inspect.signature(cls.__init__).parameters
    cd = p["cdata_containing_tags"].default
    return ("{ entity_substitution := %s, void_element_close_prefix := %s, cdata_containing_tags := %s, "
            "empty_attributes_are_booleans := %s, indent := %s }") % (
        subst_id(p["entity_substitution"].default), lean_opt_str(p["void_element_close_prefix"].default),
        "none" if cd is None else "(some [%s])" % ", ".join(lean_str(x) for x in sorted(cd)),
        "true" if p["empty_attributes_are_booleans"].default else "false", indent_arg(p["indent"].default))


def gen_consts():
    import bs4.element as E
    from bs4.formatter import Formatter
    from bs4.dammit import EntitySubstitution as ES
    t = HEADER + "namespace BS.Gen\n"
    classes = [getattr(E, n) for n in KINDS]
    t += f"/-- string classes by code: {', '.join(f'{i}={n}' for i, n in enumerate(KINDS))} -/\n"
    t += f"def fmtStrPrefix : List (List Nat) := [{', '.join(lean_str(c.PREFIX) for c in classes)}]\n"
    t += f"def fmtStrSuffix : List (List Nat) := [{', '.join(lean_str(c.SUFFIX) for c in classes)}]\n"
    t += "/-- the classes (codes) that inherit `PreformattedString.output_ready` (no substitution) -/\n"
    pre = [i for i, c in enumerate(classes) if c.output_ready is E.PreformattedString.output_ready]
    t += f"def fmtPreformatted : List Nat := {lean_nat_list(pre)}\n"
    t += "/-- `Formatter.HTML_DEFAULTS['cdata_containing_tags']` (a set; sorted here) -/\n"
    t += f"def fmtHtmlDefaultCdata : List (List Nat) := [{', '.join(lean_str(x) for x in sorted(Formatter.HTML_DEFAULTS['cdata_containing_tags']))}]\n"
    t += f"def fmtHtmlConst : List Nat := {lean_str(Formatter.HTML)}\n"
    t += f"def fmtXmlConst : List Nat := {lean_str(Formatter.XML)}\n"
    # substitute_xml: AMPERSAND_OR_BRACKET = ([<>&]) -> "&" + CHARACTER_TO_XML_ENTITY[c] + ";"
    chars = [c for c in map(chr, range(0x110000)) if ES.AMPERSAND_OR_BRACKET.fullmatch(c)]
    items = [f"({ord(c)}, {lean_str('&%s;' % ES.CHARACTER_TO_XML_ENTITY[c])})" for c in sorted(chars)]
    t += "/-- what `substitute_xml` does to each character `AMPERSAND_OR_BRACKET` matches -/\n"
    t += f"def fmtXmlSubst : List (Nat × List Nat) := [{', '.join(items)}]\n"
    t += "end BS.Gen\n"
    yield "FormatterConsts.lean", t


META = "\\.^$*+?{}[]()|"


def parse_particles(pattern: str):
    """'(a|b(?![xy])|cd|...)' -> ([(key, look-ahead chars)], [irregular particles]).
    A particle is *regular* when it is a literal key optionally followed by a negative look-ahead for ONE code point out of a
    set: `(?![xy])`, or `(?!x)` (the same thing as `(?![x])`). Anything else (e.g. `(?!xy)`, which only rejects the two-code-point
    sequence) cannot be expressed by the model's `Alt`; it is kept with an empty look-ahead set and recorded as irregular,
    which makes the table theorems of Props/C15 fail instead of stopping the translator."""
    irregular = []
    if not (pattern.startswith("(") and pattern.endswith(")")):
        return [], [pattern[:40]]
    out = []
    for part in pattern[1:-1].split("|"):
        m = re.fullmatch(r"(?s)(.+?)\(\?!(.+)\)", part)
        if m:
            key, body = m.group(1), m.group(2)
            if len(body) >= 3 and body[0] == "[" and body[-1] == "]":
                la = body[1:-1]
            elif len(body) == 1:
                la = body
            else:
                la = ""
                irregular.append(part)
        else:
            key, la = part, ""
        if not key or any(ch in META for ch in key + la):
            irregular.append(part)
        out.append((key, la))
    return out, irregular


def html_alternatives():
    from bs4.dammit import EntitySubstitution as ES
    parts, irregular = parse_particles(ES.CHARACTER_TO_HTML_ENTITY_WITH_AMPERSAND_RE.pattern)
    alts = []
    for key, la in parts:
        ent = ES.CHARACTER_TO_HTML_ENTITY.get(key)  # _substitute_html_entity
        repl = "&%s;" % ent if ent is not None else "&amp;%s;" % key
        alts.append((key, "".join(sorted(la)), repl))
    alts.sort(key=lambda a: [ord(c) for c in a[0]])
    return alts, sorted(set(irregular))


def right_nested_def(name: str, ty: str, items: list, chunk: int = 32) -> str:
    """like gen_tables.chunked_def, but `c0 ++ (c1 ++ (c2 ++ …))`: the kernel then evaluates the whole list in linear time"""
    out, parts = [], []
    for i in range(0, max(len(items), 1), chunk):
        part = f"{name}_{i // chunk}"
        parts.append(part)
        out.append(f"def {part} : List ({ty}) := [" + ", ".join(items[i:i + chunk]) + "]")
    out.append(f"def {name} : List ({ty}) := " + " ++ (".join(parts) + ")" * (len(parts) - 1))
    return "\n".join(out) + "\n"


def gen_formatter():
    from bs4.formatter import Formatter, HTMLFormatter, XMLFormatter
    t = HEADER + "import BSModel.Model.Formatter\nnamespace BS.Gen\nopen BS.Formatter\n"
    for nm, cls in (("fmtHtmlRegistry", HTMLFormatter), ("fmtXmlRegistry", XMLFormatter)):
        reg = cls.REGISTRY
        keys = sorted(reg, key=lambda k: (k is not None, k or ""))
        t += f"/-- `{cls.__name__}.REGISTRY` (keys: {', '.join(repr(k) for k in keys)}); every value is an instance of {cls.__name__}: "
        t += f"{all(type(reg[k]) is cls for k in keys)} -/\n"
        t += f"def {nm} : List (Option PStr × Cfg) := [\n  " + ",\n  ".join(
            f"({lean_opt_str(k)}, {cfg_term(reg[k])})" for k in keys) + "]\n"
    for nm, cls in (("formatterDefaults", Formatter), ("htmlFormatterDefaults", HTMLFormatter),
                    ("xmlFormatterDefaults", XMLFormatter)):
        t += f"/-- defaults of `{cls.__name__}.__init__`'s option parameters -/\n"
        t += f"def {nm} : Args := {args_term(cls)}\n"
    lang_default = inspect.signature(Formatter.__init__).parameters["language"].default
    t += f"def formatterDefaultLanguage : Option Lang := {'none' if not lang_default else '(some %s)' % lang_id(lang_default)}\n"
    alts, irregular = html_alternatives()
    t += ("/-- alternatives of `CHARACTER_TO_HTML_ENTITY_WITH_AMPERSAND_RE` parsed back from the live pattern, sorted by key "
          f"({len(alts)} alternatives, {sum(1 for a in alts if a[1])} with a negative look-ahead, "
          f"{sum(1 for a in alts if len(a[0]) > 1)} longer than one code point) -/\n")
    t += right_nested_def("htmlAlts", "Alt", [f"⟨{lean_str(k)}, {lean_str(la)}, {lean_str(r)}⟩" for k, la, r in alts])
    t += "/-- particles of the live pattern that are not `key` / `key(?![set])` (none expected; see `regex_particles_regular`) -/\n"
    t += f"def htmlAltsIrregular : List (List Nat) := [{', '.join(lean_str(x) for x in irregular)}]\n"
    t += "end BS.Gen\n"
    yield "Formatter.lean", t


def gen_html5():
    """the two stdlib tables `_populate_class_variables` reads, as the running interpreter has them"""
    from html.entities import html5, codepoint2name
    items = sorted(html5.items())
    if any(not v for _, v in items):
        raise RuntimeError("html5 has an empty value: character[0] would raise in _populate_class_variables")
    t = HEADER + "namespace BS.Gen\n"
    t += f"/-- `sorted(html.entities.html5.items())`: {len(items)} (name, characters) pairs -/\n"
    t += right_nested_def("c15Html5Items", "List Nat × List Nat", [f"({lean_str(k)}, {lean_str(v)})" for k, v in items])
    c2n = list(codepoint2name.items())
    t += f"/-- `html.entities.codepoint2name.items()` in dict order: {len(c2n)} pairs -/\n"
    t += right_nested_def("c15Codepoint2name", "Nat × List Nat", [f"({k}, {lean_str(v)})" for k, v in c2n])
    t += "end BS.Gen\n"
    yield "FormatterHtml5.lean", t


ALL = [gen_consts, gen_formatter, gen_html5]
