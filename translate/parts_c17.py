"""C17 — generated constants for BS.Attrs: the `\\s` class of `re` for str patterns, the builder's
DEFAULT_CDATA_LIST_ATTRIBUTES, str.lower() per code point, and CPython's int->str digit limit."""
import re
import sys

from gen_tables import lean_nat_list, lean_str, chunked_def, HEADER


def gen_attrs_tables():
    from bs4.builder import HTMLParserTreeBuilder
    from bs4.element import nonwhitespace_re

    # the pattern really used by the code (checked here, so a changed pattern is noticed at generation time
    # and reflected in `c17NonwhitespacePattern`, which a theorem pins to `\S+`)
    pat = nonwhitespace_re.pattern
    # every code point the regex engine treats as whitespace in a str pattern
    ws = [c for c in range(sys.maxunicode + 1) if re.match(r"\s", chr(c))]
    # code points NOT matched by the code's own pattern as a one-character token (should be the same set)
    not_tok = [c for c in range(sys.maxunicode + 1) if nonwhitespace_re.fullmatch(chr(c)) is None]

    b = HTMLParserTreeBuilder()
    table = b.cdata_list_attributes
    entries = []
    for k in sorted(table):
        attrs = ", ".join(lean_str(a) for a in sorted(table[k]))
        entries.append(f"({lean_str(k)}, [{attrs}])")

    t = HEADER + "namespace BS.Gen\n"
    t += f"/-- `bs4.element.nonwhitespace_re.pattern` = {pat!r} -/\n"
    t += f"def c17NonwhitespacePattern : List Nat := {lean_str(pat)}\n"
    t += "/-- all code points c with `re.match(r\"\\s\", chr(c))` (str pattern, Unicode) -/\n"
    t += f"def c17ReWhitespace : List Nat := {lean_nat_list(ws)}\n"
    t += "/-- all code points c that `nonwhitespace_re` does not accept as a one-character token -/\n"
    t += f"def c17NotTokenChars : List Nat := {lean_nat_list(not_tok)}\n"
    t += "/-- `HTMLParserTreeBuilder().cdata_list_attributes` (keys and sets sorted): "
    t += "; ".join(f"{k}: {' '.join(sorted(table[k]))}" for k in sorted(table)) + " -/\n"
    t += chunked_def("c17DefaultCdataListAttributes", "List Nat × List (List Nat)", entries, chunk=8)
    t += "/-- `sys.get_int_max_str_digits()` (0 = no limit): `str(int)` raises ValueError beyond it -/\n"
    t += f"def c17IntMaxStrDigits : Nat := {sys.get_int_max_str_digits()}\n"
    # the base TreeBuilder default (what a builder without an HTML table, e.g. an XML builder, starts from)
    from bs4.builder import TreeBuilder
    base = TreeBuilder.DEFAULT_CDATA_LIST_ATTRIBUTES
    bentries = []
    for k in sorted(base):
        battrs = ", ".join(lean_str(a) for a in sorted(base[k]))
        bentries.append(f"({lean_str(k)}, [{battrs}])")
    t += "/-- `TreeBuilder.DEFAULT_CDATA_LIST_ATTRIBUTES` of the base class (used by builders that define no table) -/\n"
    t += f"def c17BaseCdataListAttributes : List (List Nat × List (List Nat)) := [{', '.join(bentries)}]\n"
    # every registered formatter: (is XMLFormatter, name ("None" for the None key), empty_attributes_are_booleans)
    from bs4.formatter import HTMLFormatter, XMLFormatter
    fm = []
    for isx, reg in ((False, HTMLFormatter.REGISTRY), (True, XMLFormatter.REGISTRY)):
        for name in sorted(reg, key=lambda n: "" if n is None else n):
            f = reg[name]
            fm.append(f"({'true' if isx else 'false'}, {lean_str('None' if name is None else name)}, "
                      f"{'true' if f.empty_attributes_are_booleans else 'false'})")
    t += "/-- the formatter registries: (XML registry?, name, empty_attributes_are_booleans) -/\n"
    t += f"def c17FormatterRegistry : List (Bool × List Nat × Bool) := [{', '.join(fm)}]\n"
    t += "end BS.Gen\n"
    yield "AttrsTables.lean", t


def gen_lower():
    """`chr(c).lower()` for every code point where it differs from `chr(c)` (str.lower() applies this per
    character, except for the context rule of U+03A3 which the model leaves out)."""
    items = []
    for c in range(sys.maxunicode + 1):
        if 0xD800 <= c <= 0xDFFF:
            continue
        lo = chr(c).lower()
        if lo != chr(c):
            items.append(f"({c}, {lean_str(lo)})")
    t = HEADER + "namespace BS.Gen\n"
    t += chunked_def("c17LowerMap", "Nat × List Nat", items, chunk=64)
    t += "end BS.Gen\n"
    yield "AttrsLower.lean", t


ALL = [gen_attrs_tables, gen_lower]
