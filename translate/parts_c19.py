"""C19 tables: MS_CHARS, MS_CHARS_TO_ASCII, ENCODINGS_WITH_SMART_QUOTES, WINDOWS_1252_TO_UTF8,
MULTIBYTE_MARKERS_AND_SIZES (+ FIRST/LAST) from the live bs4.dammit.UnicodeDammit; single-byte decoding
tables from CPython's codecs; the html5 entity names that MS_CHARS mentions from html.entities."""
from gen_tables import lean_nat_list, lean_str, chunked_def, HEADER

# single-byte codecs the model knows byte by byte (canonical CPython names, `codecs.lookup(x).name`)
SINGLE_BYTE_CODECS = ["cp1252", "iso8859-1", "iso8859-2", "iso8859-5", "ascii", "mac-roman"]

# Spellings of encoding names the correspondence may hand to UnicodeDammit (known_definite_encodings, declarations).
# The generated table lists, for each spelling and everything find_codec derives from it, what CPython's registry says.
NAME_UNIVERSE_BASE = [
    "windows-1252", "iso-8859-1", "iso-8859-2", "latin-1", "cp1252", "iso-8859-5", "utf-8", "ascii",
    "WINDOWS-1252", "Windows-1252", "ISO-8859-1", "Iso-8859-2", "ISO-8859-2", "windows_1252", "windows1252", "iso8859-1", "iso8859_2",
    "iso_8859-1", "latin1", "LATIN-1", "l1", "l2", "latin-2", "cp-1252", "CP1252", "utf8", "UTF-8", "Utf-8", "utf_8", "u8", "ASCII", "us-ascii",
    "macintosh", "mac-roman", "MACINTOSH", "x-sjis", "shift-jis", "utf-16le", "utf-16be", "utf-32le", "utf-32be", "utf-16",
    "ISO_8859-1", "ISO_8859-2", "iso_8859-2", "Windows_1252", "WINDOWS_1252", "iso-8859_1", "Latin1", "ISO8859-1", "iso-ir-100", "IBM819", "cp819",
    "iso-ir-101", "csISOLatin1", "8859", "iso88591", "Cp1252", "windows-1250", "ISO-8859-15", "iso-8859-15",
    "bogus-enc", "no-such-codec", "windows-1252 ", "iso-8859-1x", "x", "-", "big5", "koi8-r",
]


def name_universe():
    """Closure of the base spellings under what find_codec looks at: alias, '-' removed, '-' -> '_', lower()."""
    from bs4.dammit import UnicodeDammit as U
    seen, todo = [], list(NAME_UNIVERSE_BASE)
    while todo:
        n = todo.pop(0)
        if n in seen or n == "":
            continue
        seen.append(n)
        todo += [U.CHARSET_ALIASES.get(n, n), n.replace("-", ""), n.replace("-", "_"), n.lower()]
    return seen


def codec_status(name: str) -> int:
    """0 = codecs.lookup fails; 1 = utf-8; 2 = some codec the model does not know byte by byte; 3+i = SINGLE_BYTE_CODECS[i]."""
    import codecs
    try:
        canon = codecs.lookup(name).name
    except (LookupError, ValueError):
        return 0
    if canon == "utf-8":
        return 1
    if canon in SINGLE_BYTE_CODECS:
        return 3 + SINGLE_BYTE_CODECS.index(canon)
    # the model lets every such codec decode the empty byte string to "" (Model/Detwingle.lean `attempt`): true of text encodings only
    assert codecs.lookup(name)._is_text_encoding, f"{name!r} is not a text encoding: give it its own status before listing it"
    return 2


def _opt(x):
    return "none" if x is None else f"some {x}"


def decode_table(codec: str):
    out = []
    for b in range(256):
        try:
            s = bytes([b]).decode(codec)
            assert len(s) == 1
            out.append(ord(s))
        except UnicodeDecodeError:
            out.append(None)
    return out


def gen_detwingle():
    from bs4.dammit import UnicodeDammit as U
    import html.entities
    t = HEADER + "namespace BS.Gen.Detwingle\n"
    # MS_CHARS: only 1-byte keys can ever equal match.group(1) of b"([\x80-\x9f])"
    items, odd = [], 0
    for k, v in U.MS_CHARS.items():
        if not (isinstance(k, bytes) and len(k) == 1):
            odd += 1
            continue
        if type(v) is tuple:
            items.append(f"({k[0]}, .inr ({lean_str(v[0])}, {lean_str(v[1])}))")
        else:
            items.append(f"({k[0]}, .inl {lean_str(v)})")
    t += "/-- UnicodeDammit.MS_CHARS: byte ↦ plain string (inl) or (entity name, hex digits) (inr) -/\n"
    t += chunked_def("msChars", "Nat × (List Nat ⊕ (List Nat × List Nat))", items)
    t += f"def msCharsOddKeys : Nat := {odd}\n"
    items = [f"({k[0]}, {lean_str(v)})" for k, v in U.MS_CHARS_TO_ASCII.items() if isinstance(k, bytes) and len(k) == 1]
    t += "/-- UnicodeDammit.MS_CHARS_TO_ASCII -/\n"
    t += chunked_def("msCharsToAscii", "Nat × List Nat", items)
    t += "/-- UnicodeDammit.ENCODINGS_WITH_SMART_QUOTES: " + ", ".join(U.ENCODINGS_WITH_SMART_QUOTES) + " -/\n"
    t += "def encodingsWithSmartQuotes : List (List Nat) := [" + ", ".join(lean_str(e) for e in U.ENCODINGS_WITH_SMART_QUOTES) + "]\n"
    items = [f"({k}, {lean_nat_list(v)})" for k, v in U.WINDOWS_1252_TO_UTF8.items()]
    t += "/-- UnicodeDammit.WINDOWS_1252_TO_UTF8 -/\n"
    t += chunked_def("windows1252ToUtf8", "Nat × List Nat", items)
    t += "/-- UnicodeDammit.MULTIBYTE_MARKERS_AND_SIZES -/\n"
    t += "def multibyteMarkersAndSizes : List (Nat × Nat × Nat) := [" + ", ".join(
        f"({a}, {b}, {c})" for a, b, c in U.MULTIBYTE_MARKERS_AND_SIZES) + "]\n"
    t += f"def firstMultibyteMarker : Nat := {U.FIRST_MULTIBYTE_MARKER}\n"
    t += f"def lastMultibyteMarker : Nat := {U.LAST_MULTIBYTE_MARKER}\n"
    # CPython's single-byte decoders (a parameter of the model, taken from the running interpreter)
    for i, c in enumerate(SINGLE_BYTE_CODECS):
        t += f"/-- bytes([b]).decode({c!r}) for b in range(256); none = UnicodeDecodeError -/\n"
        t += chunked_def(f"codec{i}", "Option Nat", [_opt(x) for x in decode_table(c)], chunk=64)
    t += "def codecTables : List (List (Option Nat)) := [" + ", ".join(f"codec{i}" for i in range(len(SINGLE_BYTE_CODECS))) + "]\n"
    t += "/-- CPython's codec registry on a finite universe of spellings: 0 = lookup fails, 1 = utf-8, 2 = another codec, 3+i = codecTables[i] -/\n"
    t += chunked_def("codecNames", "List Nat × Nat", [f"({lean_str(n)}, {codec_status(n)})" for n in name_universe()])
    t += "/-- UnicodeDammit.CHARSET_ALIASES -/\n"
    t += "def charsetAliases : List (List Nat × List Nat) := [" + ", ".join(
        f"({lean_str(k)}, {lean_str(v)})" for k, v in U.CHARSET_ALIASES.items()) + "]\n"
    t += "/-- the Windows-1252 meaning of every byte (CPython's cp1252 codec): the reference of the property -/\n"
    t += "def cp1252 : List (Option Nat) := codec0\n"
    # html5 named references that MS_CHARS emits in html mode (name without '&', with ';')
    names = sorted({v[0] for v in U.MS_CHARS.values() if type(v) is tuple and not v[0].startswith("#")})
    items = []
    for n in names:
        val = html.entities.html5.get(n + ";")
        if val is not None:
            items.append(f"({lean_str(n)}, {lean_str(val)})")
    t += "/-- html.entities.html5[name + ';'] for every entity name MS_CHARS mentions (absent if html5 lacks it) -/\n"
    t += chunked_def("html5Subset", "List Nat × List Nat", items)
    t += "end BS.Gen.Detwingle\n"
    yield "Detwingle.lean", t


ALL = [gen_detwingle]
