"""One function per generated Lean file; each yields (filename, text)."""
from gen_tables import lean_nat_list, lean_str, chunked_def, HEADER



def gen_registry():
    from bs4.builder import builder_registry, HTMLParserTreeBuilder
    from bs4 import BeautifulSoup
    # feature universe of the shipped registry, numbered by sorted name
    feats = sorted({f for b in builder_registry.builders for f in b.features} | set(BeautifulSoup.DEFAULT_BUILDER_FEATURES))
    num = {f: i for i, f in enumerate(feats)}
    regs = list(reversed(builder_registry.builders))  # registration order, oldest first
    items = [f"⟨{i + 1}, {lean_nat_list(num[f] for f in b.features)}⟩" for i, b in enumerate(regs)]
    t = HEADER + "import BSModel.Model.Registry\nnamespace BS.Gen\nopen BS.Registry\n"
    t += f"/-- features, numbered: {', '.join(f'{i}={f}' for f, i in num.items())} -/\n"
    t += f"def shippedRegistrations : List Builder := [{', '.join(items)}]\n"
    t += f"/-- names: {', '.join(b.__name__ for b in regs)} -/\n"
    t += f"def defaultFeatures : List Nat := {lean_nat_list(num[f] for f in BeautifulSoup.DEFAULT_BUILDER_FEATURES)}\n"
    hp = [i + 1 for i, b in enumerate(regs) if b is HTMLParserTreeBuilder]
    t += f"def htmlParserId : Nat := {hp[0] if hp else 0}\n"
    t += "end BS.Gen\n"
    yield "Registry.lean", t


ALL = [gen_registry]
